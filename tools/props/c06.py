"""C06 — extraction is a deterministic, side-effect-free function of its input; observers are idempotent.

X: ast inventories regenerated on every run into coq/Gen/C06Sites.v
     * every set/frozenset construction in sharepoint2text/parsing with the way it is consumed
       (member / len / sorted / any-all / none / ORDERED), obligation: every site is neutral;
     * nondeterminism sources (id(, time., random, secrets, uuid, os.listdir/walk/scandir, hash(, now()) with
       their sink (log / identity key / encrypt-only / RESULT);
     * methods called on the caller's input stream (parameter `file_like` and its aliases): read-only;
     * attribute stores / in-place list mutation through `self` or a parameter inside observer methods of
       data_types.py (the sharing inventory behind the heap model).
D: * OdtContent.iterate_units (real method, objects built in memory) against the Coq heap model (vm_compute);
   * observer sequences interleaved with to_json() on generated objects and on every fixture result;
   * every fixture extracted twice in-process, in fresh processes and under >= 8 PYTHONHASHSEED values
     (subprocess workers), per-JSON-path digests compared; input getvalue() before/after.
"""
from __future__ import annotations

import ast
import hashlib
import io
import json
import os
import subprocess
import sys
from pathlib import Path

if __name__ != "__main__":
    from common import REPO, coq_str, coq_list, coq_opt, coq_Z, coq_eval_shards

PKG = "sharepoint2text/parsing"
OBSERVERS = ("get_full_text", "iterate_units", "iterate_images", "iterate_tables", "get_metadata", "to_json")
PY_SPACE = [9, 10, 11, 12, 13, 28, 29, 30, 31, 32, 133, 160, 5760, 8192, 8193, 8194, 8195, 8196, 8197, 8198, 8199,
            8200, 8201, 8202, 8232, 8233, 8239, 8287, 12288]

# =========================================================================================== X: inventories
ORDER = ["UNone", "UMember", "ULen", "UAnyAll", "USorted", "UOrdered"]  # worst last
SET_RESULT_METHODS = {"union", "intersection", "difference", "symmetric_difference", "copy"}
SET_TEST_METHODS = {"issubset", "issuperset", "isdisjoint", "__contains__"}
SET_MUT_METHODS = {"add", "update", "discard", "remove", "clear", "difference_update", "intersection_update",
                   "symmetric_difference_update"}


class Pkg:
    """All modules of sharepoint2text/parsing parsed once, with parent links."""

    def __init__(self, root: Path):
        self.mods = {}
        for p in sorted((root / PKG).rglob("*.py")):
            rel = str(p.relative_to(root))
            if "/tests/" in rel:
                continue
            tree = ast.parse(p.read_text(encoding="utf-8"))
            for n in ast.walk(tree):
                for ch in ast.iter_child_nodes(n):
                    ch._parent = n
            tree._parent = None
            self.mods[rel] = tree
        self.funcs = {}  # name -> [(rel, FunctionDef)]
        for rel, tree in self.mods.items():
            for n in ast.walk(tree):
                if isinstance(n, (ast.FunctionDef, ast.AsyncFunctionDef)):
                    self.funcs.setdefault(n.name, []).append((rel, n))

    @staticmethod
    def enclosing(n, kinds):
        n = getattr(n, "_parent", None)
        while n is not None and not isinstance(n, kinds):
            n = getattr(n, "_parent", None)
        return n

    def func_name(self, n):
        f = self.enclosing(n, (ast.FunctionDef, ast.AsyncFunctionDef))
        c = self.enclosing(n, ast.ClassDef)
        if f is None:
            return (c.name + ".<class>") if c else "<module>"
        return (c.name + "." if c else "") + f.name


def worst(uses):
    return max(uses, key=ORDER.index) if uses else "UNone"


class SetUses:
    """Classify how a set-valued expression is consumed.  Fail-closed: anything not understood is UOrdered."""

    def __init__(self, pkg: Pkg):
        self.pkg = pkg
        self.trace = []
        self.visiting = set()

    def note(self, n, what):
        self.trace.append(f"{what}@{getattr(n, 'lineno', '?')}")

    def name_loads(self, scope, name, skip=None):
        out = []
        for n in ast.walk(scope):
            if isinstance(n, ast.Name) and n.id == name and isinstance(n.ctx, ast.Load) and n is not skip:
                out.append(n)
        return out

    def attr_loads(self, scope, attr):
        return [n for n in ast.walk(scope) if isinstance(n, ast.Attribute) and n.attr == attr
                and isinstance(n.ctx, ast.Load)]

    def binding_uses(self, target, rel, depth):
        """The set is bound to `target`; classify every later load."""
        uses = []
        if isinstance(target, ast.Name):
            fn = self.pkg.enclosing(target, (ast.FunctionDef, ast.AsyncFunctionDef))
            if fn is not None:
                for ld in self.name_loads(fn, target.id):
                    uses.append(self.expr_use(ld, rel, depth))
            else:
                # module-level (or class-level) constant: every load of that identifier in the package
                for r2, tree in self.pkg.mods.items():
                    for ld in self.name_loads(tree, target.id):
                        uses.append(self.expr_use(ld, r2, depth))
                    for ld in self.attr_loads(tree, target.id):
                        uses.append(self.expr_use(ld, r2, depth))
        elif isinstance(target, ast.Attribute) and isinstance(target.value, ast.Name) and target.value.id in ("self", "cls"):
            cls = self.pkg.enclosing(target, ast.ClassDef)
            scope = cls if cls is not None else self.pkg.mods[rel]
            for ld in self.attr_loads(scope, target.attr):
                uses.append(self.expr_use(ld, rel, depth))
        else:
            self.note(target, "bound-to-unknown-target")
            uses.append("UOrdered")
        return worst(uses)

    def returned_uses(self, node, rel, depth):
        """The set is returned from the enclosing function / property: follow the callers."""
        fn = self.pkg.enclosing(node, (ast.FunctionDef, ast.AsyncFunctionDef))
        if fn is None or depth <= 0:
            self.note(node, "return-unresolved")
            return "UOrdered"
        is_prop = any(isinstance(d, ast.Name) and d.id in ("property", "cached_property") for d in fn.decorator_list)
        uses = []
        for r2, tree in self.pkg.mods.items():
            for n in ast.walk(tree):
                if is_prop:
                    if isinstance(n, ast.Attribute) and n.attr == fn.name and isinstance(n.ctx, ast.Load):
                        uses.append(self.expr_use(n, r2, depth - 1))
                elif isinstance(n, ast.Call):
                    f = n.func
                    if (isinstance(f, ast.Name) and f.id == fn.name) or (isinstance(f, ast.Attribute) and f.attr == fn.name):
                        uses.append(self.expr_use(n, r2, depth - 1))
        return worst(uses)

    def param_uses(self, call, node, rel, depth):
        """The set is an argument of `call`: resolve the callee inside the package and follow the parameter."""
        f = call.func
        fname = f.id if isinstance(f, ast.Name) else f.attr if isinstance(f, ast.Attribute) else None
        cands = self.pkg.funcs.get(fname or "", [])
        same = [c for c in cands if c[0] == rel]
        if len(same) == 1:
            cands = same
        if len(cands) != 1 or depth <= 0:
            self.note(call, f"arg-of-unresolved:{fname}")
            return "UOrdered"
        r2, fn = cands[0]
        params = [a.arg for a in fn.args.posonlyargs + fn.args.args]
        pname = None
        for kw in call.keywords:
            if kw.value is node:
                pname = kw.arg
        if pname is None and node in call.args:
            i = call.args.index(node)
            if params and params[0] in ("self", "cls") and isinstance(f, ast.Attribute):
                i += 1
            pname = params[i] if i < len(params) else None
        if pname is None or pname not in params + [a.arg for a in fn.args.kwonlyargs]:
            self.note(call, f"arg-position-unresolved:{fname}")
            return "UOrdered"
        key = (r2, fn.name, fn.lineno, pname)
        if key in self.visiting:          # recursive call passing the parameter on: nothing new
            return "UNone"
        self.visiting.add(key)
        try:
            return worst([self.expr_use(ld, r2, depth - 1) for ld in self.name_loads(fn, pname)])
        finally:
            self.visiting.discard(key)

    @staticmethod
    def ancestors(n):
        n = getattr(n, "_parent", None)
        while n is not None:
            yield n
            n = getattr(n, "_parent", None)

    def dict_of_sets(self, call, rel, depth):
        """d.get(k, <set>) / d.setdefault(k, <set>): the set is (or stands in for) a value of dict d."""
        uses = [self.expr_use(call, rel, depth)]
        d = call.func.value
        fn = self.pkg.enclosing(call, (ast.FunctionDef, ast.AsyncFunctionDef))
        if call.func.attr == "setdefault":
            if not isinstance(d, ast.Name) or fn is None:
                self.note(call, "setdefault-on-unknown-dict")
                return "UOrdered"
            for ld in self.name_loads(fn, d.id):
                q = getattr(ld, "_parent", None)
                if isinstance(q, ast.Attribute) and q.attr in ("get", "setdefault", "pop") and isinstance(getattr(q, "_parent", None), ast.Call):
                    if q._parent is not call:
                        uses.append(self.expr_use(q._parent, rel, depth))
                elif isinstance(q, ast.Subscript) and q.value is ld:
                    uses.append(self.expr_use(q, rel, depth) if isinstance(q.ctx, ast.Load) else "UNone")
                elif isinstance(q, ast.Compare):
                    uses.append("UMember")
                else:
                    self.note(ld, "dict-of-sets-escapes")
                    uses.append("UOrdered")
        return worst(uses)

    def for_body_use(self, loop, rel, depth):
        """`for x in S: ...` is order-insensitive when the body is an existential test
        (`if c: return <const>`) or only fills a dict keyed by x that is consumed as **kwargs."""
        var = loop.target.id if isinstance(loop.target, ast.Name) else None
        fn = self.pkg.enclosing(loop, (ast.FunctionDef, ast.AsyncFunctionDef))
        if var is None or fn is None or loop.orelse:
            return "UOrdered"
        stmts = list(loop.body)
        flat = []
        for st in stmts:
            if isinstance(st, ast.If) and not st.orelse:
                flat.extend(st.body)
            else:
                flat.append(st)
        if flat and all(isinstance(st, ast.Return) and isinstance(st.value, ast.Constant) for st in flat) \
                and len({st.value.value for st in flat}) == 1:
            return "UAnyAll"
        dicts = set()
        for st in flat:
            if isinstance(st, ast.Assign) and len(st.targets) == 1 and isinstance(st.targets[0], ast.Subscript) \
                    and isinstance(st.targets[0].value, ast.Name) and isinstance(st.targets[0].slice, ast.Name) \
                    and st.targets[0].slice.id == var:
                dicts.add(st.targets[0].value.id)
            elif isinstance(st, ast.Assign) and len(st.targets) == 1 and isinstance(st.targets[0], ast.Name) and all(
                    any(a is loop for a in self.ancestors(ld)) for ld in self.name_loads(fn, st.targets[0].id)):
                continue                  # per-iteration temporary, not read outside the loop
            else:
                return "UOrdered"
        for dn in dicts:
            for ld in self.name_loads(fn, dn):
                q = getattr(ld, "_parent", None)
                if isinstance(q, ast.Subscript) and isinstance(q.ctx, ast.Store):
                    continue
                if isinstance(q, ast.keyword) and q.arg is None:      # f(**d): keyword order is irrelevant
                    continue
                return "UOrdered"
        return "UMember" if dicts else "UOrdered"

    def expr_use(self, node, rel, depth=4):
        """Use of the set-valued expression `node`, looking at its parent."""
        p = getattr(node, "_parent", None)
        if p is None:
            return "UOrdered"
        if isinstance(p, ast.Expr):
            return "UNone"
        if isinstance(p, ast.Compare):
            if node in p.comparators and all(isinstance(o, (ast.In, ast.NotIn)) for o in p.ops):
                return "UMember"
            if all(isinstance(o, (ast.Eq, ast.NotEq, ast.LtE, ast.GtE, ast.Lt, ast.Gt, ast.Is, ast.IsNot)) for o in p.ops):
                return "UAnyAll"
            self.note(p, "compare")
            return "UOrdered"
        if isinstance(p, ast.BinOp) and isinstance(p.op, (ast.BitOr, ast.BitAnd, ast.Sub, ast.BitXor)):
            return self.expr_use(p, rel, depth)
        if isinstance(p, (ast.BoolOp, ast.IfExp)):
            if isinstance(p, ast.IfExp) and p.test is node:
                return "ULen"
            u = self.expr_use(p, rel, depth)
            return u
        if isinstance(p, ast.UnaryOp) and isinstance(p.op, ast.Not):
            return "ULen"
        if isinstance(p, (ast.If, ast.While, ast.Assert)) and p.test is node:
            return "ULen"
        if isinstance(p, ast.Attribute) and p.value is node:
            call = getattr(p, "_parent", None)
            if isinstance(call, ast.Call) and call.func is p:
                if p.attr in SET_MUT_METHODS:
                    return "UNone"
                if p.attr in SET_TEST_METHODS:
                    return "UMember"
                if p.attr in SET_RESULT_METHODS:
                    return self.expr_use(call, rel, depth)
            self.note(p, f"method:{p.attr}")
            return "UOrdered"
        if isinstance(p, ast.Call):
            f = p.func
            if f is node:
                return "UNone"            # x.namelist(...) is a call of something else, not the set-valued property
            if isinstance(f, ast.Attribute) and f.attr in ("get", "setdefault") and len(p.args) == 2 and p.args[1] is node:
                return self.dict_of_sets(p, rel, depth)
            if isinstance(f, ast.Name) and (node in p.args):
                if f.id in ("len", "bool"):
                    return "ULen"
                if f.id == "sorted":
                    return "USorted"
                if f.id in ("any", "all", "min", "max"):
                    return "UAnyAll"
                if f.id in ("set", "frozenset"):
                    return self.expr_use(p, rel, depth)
                if f.id in ("list", "tuple", "enumerate", "iter", "next", "zip", "map", "filter", "reversed", "sum",
                            "dict", "str", "repr"):
                    self.note(p, f"{f.id}(set)")
                    return "UOrdered"
            if isinstance(f, ast.Attribute) and node in p.args:
                if f.attr in SET_MUT_METHODS | SET_TEST_METHODS:
                    return "UMember"      # other_set.update(S) / T.issubset(S): order of S irrelevant
                if f.attr in SET_RESULT_METHODS:
                    return self.expr_use(p, rel, depth)
                if f.attr in ("join", "extend", "append", "writelines"):
                    self.note(p, f".{f.attr}(set)")
                    return "UOrdered"
            return self.param_uses(p, node, rel, depth)
        if isinstance(p, ast.keyword):
            call = getattr(p, "_parent", None)
            if isinstance(call, ast.Call):
                return self.param_uses(call, node, rel, depth)
            return "UOrdered"
        if isinstance(p, ast.Assign) and p.value is node:
            return worst([self.binding_uses(t, rel, depth) for t in p.targets])
        if isinstance(p, ast.AnnAssign) and p.value is node:
            return self.binding_uses(p.target, rel, depth)
        if isinstance(p, ast.AugAssign) and p.value is node:
            return "UMember"              # T |= S
        if isinstance(p, ast.AugAssign) and p.target is node:
            return "UNone"
        if isinstance(p, ast.Return):
            return self.returned_uses(p, rel, depth)
        if isinstance(p, ast.comprehension) and p.iter is node:
            comp = getattr(p, "_parent", None)
            if isinstance(comp, ast.SetComp):
                return self.expr_use(comp, rel, depth)
            if isinstance(comp, ast.GeneratorExp):
                outer = getattr(comp, "_parent", None)
                if isinstance(outer, ast.Call) and isinstance(outer.func, ast.Name):
                    if outer.func.id in ("any", "all", "min", "max"):
                        return "UAnyAll"
                    if outer.func.id in ("set", "frozenset"):
                        return self.expr_use(outer, rel, depth)
                    if outer.func.id == "sorted":
                        return "USorted"
            self.note(p, "comprehension-over-set")
            return "UOrdered"
        if isinstance(p, ast.For) and p.iter is node:
            u = self.for_body_use(p, rel, depth)
            if u == "UOrdered":
                self.note(p, "for-over-set")
            return u
        if isinstance(p, ast.arguments):
            # default value of a parameter: follow the parameter inside its function
            fn = getattr(p, "_parent", None)
            allp = p.posonlyargs + p.args
            defaults = dict(zip([a.arg for a in allp[len(allp) - len(p.defaults):]], p.defaults))
            defaults.update({a.arg: d for a, d in zip(p.kwonlyargs, p.kw_defaults) if d is not None})
            for nme, d in defaults.items():
                if d is node:
                    return worst([self.expr_use(ld, rel, depth - 1) for ld in self.name_loads(fn, nme)])
        self.note(p, f"parent:{type(p).__name__}")
        return "UOrdered"


def is_set_ctor(n):
    if isinstance(n, (ast.Set, ast.SetComp)):
        return True
    return isinstance(n, ast.Call) and isinstance(n.func, ast.Name) and n.func.id in ("set", "frozenset")


def inventory_sets(pkg: Pkg):
    sites = []
    for rel, tree in pkg.mods.items():
        for n in ast.walk(tree):
            if not is_set_ctor(n):
                continue
            # skip a constructor that merely wraps another one (frozenset({..})): the outer one is the site
            p = getattr(n, "_parent", None)
            if isinstance(p, ast.Call) and is_set_ctor(p) and n in p.args:
                continue
            su = SetUses(pkg)
            use = su.expr_use(n, rel)
            sites.append({"file": rel, "func": pkg.func_name(n), "line": n.lineno, "use": use,
                          "src": ast.unparse(n)[:70], "trace": su.trace[:6]})
    return sites


ND_MODULES = {"time", "random", "secrets", "uuid"}
ND_OS = {"listdir", "walk", "scandir", "getpid", "urandom", "environ", "getenv"}
ND_DT = {"now", "utcnow", "today"}


def inventory_nondet(pkg: Pkg):
    out = []
    for rel, tree in pkg.mods.items():
        for n in ast.walk(tree):
            kind = None
            if isinstance(n, ast.Call) and isinstance(n.func, ast.Name) and n.func.id in ("id", "hash"):
                kind = n.func.id + "()"
                expr = n
            elif isinstance(n, ast.Attribute) and isinstance(n.value, ast.Name) and isinstance(n.ctx, ast.Load):
                if n.value.id in ND_MODULES:
                    kind = f"{n.value.id}.{n.attr}"
                elif n.value.id == "os" and n.attr in ND_OS:
                    kind = f"os.{n.attr}"
                elif n.attr in ND_DT and n.value.id in ("datetime", "date"):
                    kind = f"{n.value.id}.{n.attr}"
                elif n.value.id == "glob" or n.attr in ("iterdir", "glob", "rglob"):
                    kind = f"{n.value.id}.{n.attr}"
                expr = getattr(n, "_parent", None) if kind else None
                if kind and not (isinstance(expr, ast.Call) and expr.func is n):
                    expr = n
            if kind is None:
                continue
            out.append({"file": rel, "func": pkg.func_name(n), "line": n.lineno, "kind": kind,
                        "sink": nd_sink(pkg, expr, kind, 3)})
    return out


def in_logger_call(n):
    while n is not None:
        if isinstance(n, ast.Call) and isinstance(n.func, ast.Attribute) and isinstance(n.func.value, ast.Name) \
                and n.func.value.id in ("logger", "logging", "log"):
            return True
        if isinstance(n, ast.stmt):
            return False
        n = getattr(n, "_parent", None)
    return False


def nd_sink(pkg, expr, kind, depth):
    fn = pkg.enclosing(expr, (ast.FunctionDef, ast.AsyncFunctionDef))
    if kind.startswith("secrets.") or kind.startswith("random.") or kind == "os.urandom":
        name = fn.name.lower() if fn is not None else ""
        if "encrypt" in name and "decrypt" not in name:
            return "SEncryptOnly"
        return "SResult"
    if in_logger_call(expr):
        return "SLog"
    p = getattr(expr, "_parent", None)
    # pure arithmetic / tuple wrapping keeps the taint: look at the wrapping expression
    while isinstance(p, (ast.BinOp, ast.Tuple, ast.FormattedValue, ast.JoinedStr)):
        expr, p = p, getattr(p, "_parent", None)
        if in_logger_call(expr):
            return "SLog"
    if kind == "id()":
        if isinstance(p, ast.Call) and isinstance(p.func, ast.Attribute) and p.func.attr in ("add", "discard") and expr in p.args:
            return "SIdentityKey"
        if isinstance(p, ast.Compare) and p.left is expr and all(isinstance(o, (ast.In, ast.NotIn)) for o in p.ops):
            return "SIdentityKey"
        if isinstance(p, ast.Subscript) and p.slice is expr:
            return "SIdentityKey"
    if isinstance(p, ast.Assign) and len(p.targets) == 1 and isinstance(p.targets[0], ast.Name) and fn is not None and depth > 0:
        nm = p.targets[0].id
        sinks = []
        for ld in ast.walk(fn):
            if isinstance(ld, ast.Name) and ld.id == nm and isinstance(ld.ctx, ast.Load):
                sinks.append(nd_sink(pkg, ld, kind, depth - 1))
        if sinks and all(x == "SLog" for x in sinks):
            return "SLog"
        if sinks and kind == "id()" and all(x == "SIdentityKey" for x in sinks):
            return "SIdentityKey"
    return "SResult"


STREAM_PARAMS = {"file_like"}


def inventory_stream(pkg: Pkg):
    """Method calls on the caller's input object (parameter `file_like` and plain aliases of it)."""
    out, modes = [], []
    for rel, tree in pkg.mods.items():
        for fn in ast.walk(tree):
            if not isinstance(fn, (ast.FunctionDef, ast.AsyncFunctionDef)):
                continue
            params = {a.arg for a in fn.args.posonlyargs + fn.args.args + fn.args.kwonlyargs}
            names = set(params & STREAM_PARAMS)
            if not names:
                continue
            for n in ast.walk(fn):   # plain aliases  x = file_like
                if isinstance(n, ast.Assign) and isinstance(n.value, ast.Name) and n.value.id in names:
                    for t in n.targets:
                        if isinstance(t, ast.Name):
                            names.add(t.id)
            for n in ast.walk(fn):
                if isinstance(n, ast.Attribute) and isinstance(n.value, ast.Name) and n.value.id in names:
                    meth = n.attr
                    call = getattr(n, "_parent", None)
                    outer = getattr(call, "_parent", None)
                    if meth == "getbuffer" and isinstance(call, ast.Call) and isinstance(outer, ast.Attribute) and outer.attr == "nbytes":
                        meth = "getbuffer().nbytes"       # size only; the writable view is dropped at once
                    out.append({"file": rel, "func": pkg.func_name(n), "line": n.lineno, "method": meth})
                if isinstance(n, ast.Call):
                    f = n.func
                    fname = f.attr if isinstance(f, ast.Attribute) else f.id if isinstance(f, ast.Name) else ""
                    if fname in ("ZipFile", "open", "TarFile") and any(isinstance(a, ast.Name) and a.id in names for a in n.args):
                        mode = None
                        if len(n.args) > 1 and isinstance(n.args[1], ast.Constant):
                            mode = n.args[1].value
                        for kw in n.keywords:
                            if kw.arg == "mode" and isinstance(kw.value, ast.Constant):
                                mode = kw.value.value
                            elif kw.arg == "mode":
                                mode = "?"
                        modes.append({"file": rel, "func": pkg.func_name(n), "line": n.lineno, "callee": fname,
                                      "mode": "r" if mode is None else str(mode)})
    return out, modes


def inventory_observer_writes(pkg: Pkg):
    """Attribute stores and in-place list mutations whose target is reached from `self` (or a loop variable
    over something reached from self) inside observer methods of the content classes of data_types.py."""
    rel = f"{PKG}/extractors/data_types.py"
    tree = pkg.mods[rel]
    out = []
    for cls in [n for n in tree.body if isinstance(n, ast.ClassDef)]:
        for fn in [n for n in cls.body if isinstance(n, ast.FunctionDef)]:
            if fn.name not in OBSERVERS + ("get_text", "get_images", "get_tables", "get_bytes", "get_table", "get_dim"):
                continue
            shared = {"self"}
            changed = True
            while changed:     # names bound to something reached from a shared name (loop vars, aliases)
                changed = False
                for n in ast.walk(fn):
                    tgt, src = None, None
                    if isinstance(n, (ast.For, ast.comprehension)):
                        tgt, src = n.target, n.iter
                    elif isinstance(n, ast.Assign) and len(n.targets) == 1:
                        tgt, src = n.targets[0], n.value
                    if tgt is None:
                        continue
                    if isinstance(src, ast.Call):      # list(self.images) is a new list but the same elements
                        if isinstance(src.func, ast.Name) and src.func.id in ("list", "reversed", "enumerate", "tuple", "iter") and src.args:
                            src = src.args[0]
                        else:
                            continue                    # any other call result is a fresh object
                    if isinstance(src, (ast.Subscript,)):
                        src = src.value
                    root = src
                    while isinstance(root, (ast.Attribute, ast.Subscript)):
                        root = root.value
                    if isinstance(root, ast.Name) and root.id in shared and isinstance(src, (ast.Attribute, ast.Name, ast.Subscript)):
                        stack = [tgt]
                        while stack:      # plain names / tuples of names only (a store into x[i] binds nothing)
                            t = stack.pop()
                            if isinstance(t, (ast.Tuple, ast.List)):
                                stack.extend(t.elts)
                            elif isinstance(t, ast.Name) and t.id not in shared:
                                shared.add(t.id)
                                changed = True
            for n in ast.walk(fn):
                tgts = []
                if isinstance(n, ast.Assign):
                    tgts = n.targets
                elif isinstance(n, (ast.AugAssign, ast.AnnAssign)):
                    tgts = [n.target]
                for t in tgts:
                    for y in ast.walk(t):
                        if isinstance(y, (ast.Attribute, ast.Subscript)) and isinstance(y.ctx, ast.Store):
                            root = y.value
                            while isinstance(root, (ast.Attribute, ast.Subscript)):
                                root = root.value
                            if isinstance(root, ast.Name) and root.id in shared:
                                out.append({"cls": cls.name, "method": fn.name, "line": n.lineno, "what": ast.unparse(t)})
                if isinstance(n, ast.Call) and isinstance(n.func, ast.Attribute) and n.func.attr in (
                        "append", "extend", "insert", "pop", "remove", "clear", "sort", "reverse", "update", "setdefault",
                        "popitem", "write", "truncate"):
                    v = n.func.value
                    # only direct attributes of a shared name: self.xs.append(..) / image.tags.append(..)
                    if isinstance(v, ast.Attribute) and isinstance(v.value, ast.Name) and v.value.id in shared - {"self"} | ({"self"} if isinstance(v.value, ast.Name) and v.value.id == "self" else set()):
                        out.append({"cls": cls.name, "method": fn.name, "line": n.lineno, "what": ast.unparse(n.func)})
    return out


USE_OK = {"UNone", "UMember", "ULen", "UAnyAll", "USorted"}


def gen_sites(ctx, pkg):
    sets = inventory_sets(pkg)
    nd = inventory_nondet(pkg)
    stream, modes = inventory_stream(pkg)
    writes = inventory_observer_writes(pkg)
    z = lambda n: f"({n})%Z"
    t = "(* GENERATED on every check run by tools/props/c06.py from the ast of the repo under test - do not edit. *)\n"
    t += "From Coq Require Import ZArith List.\nFrom S2T Require Import Lib.PyStr C06.Lib C06.Model.\nImport ListNotations.\n\n"
    t += "Definition set_sites : list site := [\n" + ";\n".join(
        f"  ({coq_str(x['file'])}, {coq_str(x['func'])}, {z(x['line'])}, {x['use']})" for x in sets) + "\n].\n\n"
    t += "Definition nd_sites : list nd_site := [\n" + ";\n".join(
        f"  ({coq_str(x['file'])}, {coq_str(x['func'])}, {z(x['line'])}, {coq_str(x['kind'])}, {x['sink']})" for x in nd) + "\n].\n\n"
    t += "Definition stream_sites : list stream_site := [\n" + ";\n".join(
        f"  ({coq_str(x['file'])}, {coq_str(x['func'])}, {z(x['line'])}, {coq_str(x['method'])})" for x in stream) + "\n].\n\n"
    t += "(* modes of zipfile.ZipFile(file_like, mode) / open(...) applied to the input object *)\n"
    t += "Definition open_modes : list (str * str * Z * str) := [\n" + ";\n".join(
        f"  ({coq_str(x['file'])}, {coq_str(x['func'])}, {z(x['line'])}, {coq_str(x['mode'])})" for x in modes) + "\n].\n\n"
    t += "(* stores through self / shared objects inside observer methods of data_types.py: (class, method, line) *)\n"
    t += "Definition observer_writes : list (str * str * Z) := [\n" + ";\n".join(
        f"  ({coq_str(x['cls'])}, {coq_str(x['method'])}, {z(x['line'])})" for x in writes) + "\n].\n"
    ctx.gen_write("Gen/C06Sites.v", t)
    return sets, nd, stream, modes, writes


# =========================================================================================== D: ODT objects
def rnd_text(rng, words, k=4):
    return " ".join(rng.choice(words) for _ in range(rng.randint(0, k)))


def gen_odt_case(rng, size):
    """A random OdtContent described by plain data (so that it can be rebuilt in a worker / replay)."""
    words = ["alpha", "beta", "Gamma", "delta", "Fig", "fig 1", "cap", "T1", "x", "total", "Name", "Wert", "äß"]
    ws = ["", "", " ", "\n", "\t", " ", " "]
    paras = []
    for _ in range(rng.randint(0, size)):
        k = rng.random()
        txt = rng.choice(ws) + rnd_text(rng, words) + rng.choice(ws)
        if k < 0.25:
            paras.append({"text": txt, "style": rng.choice([None, "Heading_20_1", "P1"]), "outline": rng.choice([1, 1, 2, 3, 2, 0, 5])})
        elif k < 0.45:
            paras.append({"text": txt, "style": rng.choice(["Table_20_Contents", "Table1.A1", "TableX", "P_Table_"]), "outline": None})
        else:
            paras.append({"text": txt, "style": rng.choice([None, "", "P1", "Standard", "aTable", "Tabl"]), "outline": None})
    tables = []
    for _ in range(rng.randint(0, 3)):
        rows = [[rng.choice(ws) + rng.choice(words + [""]) for _ in range(rng.randint(0, 3))] for _ in range(rng.randint(0, 3))]
        tables.append(rows)
    heap = []
    for i in range(rng.randint(0, 4)):
        heap.append({"caption": rng.choice(["", "", "cap", "Fig", "alpha beta", "zzz"]),
                     "description": rng.choice(["", "", "delta", "x", "Gamma", "nope"]),
                     "unit_name": rng.choice([None, None, None, 1, 2, 7]), "rest": f"img{i}"})
    refs = []
    if heap:
        k = rng.random()
        if k < 0.7:
            refs = list(range(len(heap)))
        else:
            refs = [rng.randrange(len(heap)) for _ in range(rng.randint(0, 5))]
    return {"title": rng.choice(["", "", "Doc Title", "alpha"]), "paragraphs": paras, "tables": tables,
            "heap": heap, "images": refs, "full_text": rng.choice(ws) + rnd_text(rng, words, 8) + rng.choice(ws)}


def build_odt(case):
    from sharepoint2text.parsing.extractors import data_types as dt
    heap = [dt.OpenDocumentImage(href=i["rest"], caption=i["caption"], description=i["description"],
                                 unit_name=i["unit_name"]) for i in case["heap"]]
    c = dt.OdtContent(
        metadata=dt.OpenDocumentMetadata(title=case["title"]),
        paragraphs=[dt.OdtParagraph(text=p["text"], style_name=p["style"], outline_level=p["outline"]) for p in case["paragraphs"]],
        tables=[dt.OdtTable(data=[list(r) for r in t]) for t in case["tables"]],
        images=[heap[r] for r in case["images"]],
        full_text=case["full_text"])
    return c, heap


def img_tuple(i):
    return (i.caption, i.description, i.unit_name, i.href)


def impl_iterate_units(case):
    c, heap = build_odt(case)
    units = list(c.iterate_units())
    uv = [(u.text, u.unit_number, u.heading_level, list(u.heading_path), [img_tuple(i) for i in u.images],
           [[list(r) for r in t.data] for t in u.tables]) for u in units]
    return uv, [img_tuple(i) for i in heap]


def cq_img(t):
    return f"(mkImage {coq_str(t[0])} {coq_str(t[1])} {coq_opt(t[2], coq_Z)} {coq_str(t[3])})"


def cq_table(t):
    return coq_list([coq_list([coq_str(x) for x in r]) for r in t])


def cq_case(case, uv, heap_after):
    paras = coq_list([f"(mkPara {coq_str(p['text'])} {coq_opt(p['style'], coq_str)} {coq_opt(p['outline'], coq_Z)})"
                      for p in case["paragraphs"]])
    c = (f"(mkOdt {coq_str(case['title'])} {paras} {coq_list([cq_table(t) for t in case['tables']])} "
         f"{coq_list([str(r) + '%nat' for r in case['images']])} {coq_str(case['full_text'])})")
    h = coq_list([cq_img((i["caption"], i["description"], i["unit_name"], i["rest"])) for i in case["heap"]])
    units = coq_list([f"(mkUnit {coq_str(u[0])} {coq_Z(u[1])} {coq_opt(u[2], coq_Z)} {coq_list([coq_str(x) for x in u[3]])} "
                      f"{coq_list([cq_img(i) for i in u[4]])} {coq_list([cq_table(t) for t in u[5]])})" for u in uv])
    return f"({c}, {h}, {units}, {coq_list([cq_img(i) for i in heap_after])})"


# =========================================================================================== D: observers
def canon(v, depth=0):
    """Canonical, address-free rendering of an observer's return value."""
    import dataclasses
    if isinstance(v, io.BytesIO):
        pos = v.tell()
        d = hashlib.sha256(v.getvalue()).hexdigest()[:16]
        v.seek(pos)
        return ("bytesio", d)
    if isinstance(v, (bytes, bytearray)):
        return ("bytes", hashlib.sha256(bytes(v)).hexdigest()[:16])
    if dataclasses.is_dataclass(v) and not isinstance(v, type):
        return (type(v).__name__, tuple((f.name, canon(getattr(v, f.name), depth + 1)) for f in dataclasses.fields(v)))
    if isinstance(v, dict):
        return ("dict", tuple((str(k), canon(x, depth + 1)) for k, x in v.items()))
    if isinstance(v, (list, tuple)):
        return ("list", tuple(canon(x, depth + 1) for x in v))
    if isinstance(v, (set, frozenset)):
        return ("set", tuple(sorted(repr(canon(x, depth + 1)) for x in v)))
    if isinstance(v, (str, int, float, bool)) or v is None:
        return v
    return ("repr", type(v).__name__)


def digest_json(obj):
    return hashlib.sha256(json.dumps(obj.to_json(), sort_keys=True, default=repr).encode("utf-8", "surrogatepass")).hexdigest()


def call_observer(obj, name):
    r = getattr(obj, name)()
    if name.startswith("iterate_"):
        r = list(r)
        if name == "iterate_units":
            # a unit is observed through its own accessors as well
            r = [(u, u.get_text(), u.get_images(), u.get_tables(), u.get_metadata()) for u in r]
    return canon(r)


def observer_sequence_oracle(obj, seq, label):
    """Run the observer sequence; report (observer, kind) pairs violating idempotence / purity."""
    bad = []
    try:
        d0 = digest_json(obj)
    except Exception as e:  # noqa  (C05's business; nothing to compare then)
        return [("to_json", f"raises {type(e).__name__}")]
    first = {}
    for name in seq:
        try:
            v = call_observer(obj, name)
        except Exception as e:  # noqa
            v = ("raises", type(e).__name__)
        d = digest_json(obj)
        if d != d0:
            # this call wrote to the result: blame it, and start afresh (later differences are consequences)
            bad.append((name, "changes a later to_json()"))
            d0 = d
            first = {}
            continue
        if name in first and first[name] != v:
            bad.append((name, "returns a different value when called again (no write in between)"))
        first.setdefault(name, v)
    return bad


# =========================================================================================== D: worker
def leaf_digests(j):
    """JSON -> {path with list indices erased: digest of the sequence of leaves under it}"""
    acc = {}

    def go(x, path):
        if isinstance(x, dict):
            if set(x) == {"_bytesio"} or set(x) == {"_bytes"}:
                acc.setdefault(path, hashlib.sha256()).update(repr(x).encode())
                return
            acc.setdefault(path + "{keys}", hashlib.sha256()).update(repr(list(x)).encode())
            for k, v in x.items():
                go(v, path + "." + str(k))
        elif isinstance(x, list):
            acc.setdefault(path + "[len]", hashlib.sha256()).update(str(len(x)).encode())
            for v in x:
                go(v, path + "[]")
        else:
            acc.setdefault(path, hashlib.sha256()).update((repr(x) + "\x00").encode("utf-8", "surrogatepass"))
    go(j, "")
    return {k: h.hexdigest()[:16] for k, h in acc.items()}


def worker_main(argv):
    """python c06.py --worker <resources-dir> <out.json> [<only-rel> ...] : extract every fixture, twice."""
    import logging
    logging.disable(logging.CRITICAL)
    import warnings
    warnings.filterwarnings("ignore")
    from sharepoint2text.parsing.router import get_extractor, is_supported_file
    root = Path(argv[0])
    only = set(argv[2:])
    res = {}
    for p in sorted(root.rglob("*")):
        rel = str(p.relative_to(root))
        if not p.is_file() or (only and rel not in only) or not is_supported_file(str(p)):
            continue
        data = p.read_bytes()
        runs = []
        for _ in range(2):
            buf = io.BytesIO(data)
            start = 0
            try:
                objs = list(get_extractor(str(p))(buf, str(p)))
                js = [o.to_json() for o in objs]
                kinds = [type(o).__name__ for o in objs]
                runs.append({"ok": True, "types": kinds,
                             "leaves": [leaf_digests(j) for j in js],
                             "digest": hashlib.sha256(json.dumps(js, sort_keys=True, default=repr).encode("utf-8", "surrogatepass")).hexdigest()})
            except Exception as e:  # noqa
                runs.append({"ok": False, "types": [], "leaves": [], "digest": "EXC:" + type(e).__name__ + ":" + str(e)[:200]})
            runs[-1]["input_same"] = (buf.getvalue() == data)
        res[rel] = runs
    Path(argv[1]).write_text(json.dumps(res))


def spawn_workers(ctx, seeds, resources, outdir):
    procs = []
    for i, seed in enumerate(seeds):
        env = dict(os.environ)
        env["PYTHONHASHSEED"] = str(seed)
        out = outdir / f"w{i}.json"
        procs.append((seed, out, subprocess.Popen(
            [sys.executable, str(Path(__file__).resolve()), "--worker", str(resources), str(out)],
            env=env, stdout=subprocess.PIPE, stderr=subprocess.STDOUT, text=True)))
    results = []
    for seed, out, p in procs:
        try:
            log, _ = p.communicate(timeout=900)
        except subprocess.TimeoutExpired:
            p.kill()
            log = "timeout"
        if p.returncode != 0 or not out.exists():
            ctx.obligation(f"worker(seed={seed})-completed", False, (log or "")[-800:])
            continue
        results.append((seed, json.loads(out.read_text())))
        out.unlink()
    return results


def diff_paths(a, b):
    """paths (type-qualified) whose leaf digests differ between two runs of the same fixture"""
    out = []
    if a["types"] != b["types"] or len(a["leaves"]) != len(b["leaves"]):
        return ["<result types/count>"]
    for t, la, lb in zip(a["types"], a["leaves"], b["leaves"]):
        for k in sorted(set(la) | set(lb)):
            if la.get(k) != lb.get(k):
                out.append(t + k)
    return sorted(set(out))


def stream_oracle(ctx):
    """serialization._bytesio_to_base64 and zip_bomb.validate_zip_bytesio on random streams / positions:
    the theorem's right-hand side (whole content returned, content and position as found) evaluated on the
    implementation, and the same cases evaluated by the Coq stream model."""
    import base64
    import zipfile
    from sharepoint2text.parsing.extractors import serialization
    from sharepoint2text.parsing.extractors.util import zip_bomb
    rng = ctx.rng
    cases = []
    for i in range(ctx.n(60, 600)):
        data = bytes(rng.randrange(256) for _ in range(rng.choice([0, 1, 2, 5, 17, 64])))
        pos = rng.choice([0, 0, len(data), rng.randint(0, len(data) + 3)])
        b = io.BytesIO(data)
        b.seek(pos)
        got = serialization._bytesio_to_base64(b)
        ok = (base64.b64decode(got) == data and b.tell() == pos and b.getvalue() == data)
        ctx.case(("b64", data, pos), len(data) > 0 and pos > 0, kind="stream:_bytesio_to_base64")
        if not ok:
            ctx.finding("stream-discipline:_bytesio_to_base64",
                        f"_bytesio_to_base64 on {len(data)} bytes at position {pos}: returned whole content="
                        f"{base64.b64decode(got) == data}, position after={b.tell()}, content kept={b.getvalue() == data}",
                        {"data": data, "position": pos})
        cases.append(f"(mkStream {coq_list([str(x) for x in data])}%N ({pos})%Z, {coq_list([str(x) for x in base64.b64decode(got)])}%N, ({b.tell()})%Z)")
    pre = "From Coq Require Import ZArith List.\nFrom S2T Require Import Lib.PyStr C06.Lib C06.Model C06.Corr.\nImport ListNotations.\n"
    ok, failing, log = coq_eval_shards(ctx, "stream", pre, "corr_stream", cases, shard=300, ty="stream * list N * Z")
    ctx.obligation("correspondence:_bytesio_to_base64==stream model", ok and not failing, f"{len(failing)} disagreements {log[:400]}")
    ctx.traces += len(cases)
    # validate_zip_bytesio: valid zip, garbage (raises), at several positions
    zb = io.BytesIO()
    with zipfile.ZipFile(zb, "w") as z:
        z.writestr("a.txt", "hello")
    for data in (zb.getvalue(), b"not a zip at all", b"", zb.getvalue()[:30]):
        for pos in (0, 3, len(data), len(data) + 2):
            b = io.BytesIO(data)
            b.seek(pos)
            try:
                zip_bomb.validate_zip_bytesio(b, source="c06")
                outcome = "ok"
            except Exception as e:  # noqa
                outcome = type(e).__name__
            ctx.case(("vz", data, pos, outcome), True, kind="stream:validate_zip_bytesio:" + outcome)
            if b.tell() != pos or b.getvalue() != data:
                ctx.finding("stream-discipline:validate_zip_bytesio",
                            f"validate_zip_bytesio ({outcome}) left position {b.tell()} (was {pos}) / content kept={b.getvalue() == data}",
                            {"data": data, "position": pos, "outcome": outcome})


# =========================================================================================== run
def run(ctx):
    import logging
    import tempfile
    import warnings
    logging.disable(logging.CRITICAL)
    warnings.filterwarnings("ignore")
    ctx.rule = ("non-trivial = a fixture compared under >= 2 hash seeds / processes, or an observer sequence of length >= 2 "
                "interleaved with to_json(), or an ODT object with >= 1 image and >= 1 paragraph")
    ctx.trusted += [
        "X: tools/props/c06.py ast inventories (set constructions and their consumers, nondeterminism sources and sinks, "
        "methods called on `file_like`, stores through self in observer methods) -- fail-closed classifier, trusted",
        "hand-written heap model of OdtContent observers (C06/Model.v), tied by vm_compute differential runs of the real "
        "OdtContent.iterate_units on generated objects",
        "oracles: Python set iteration order = arbitrary permutation (universally quantified); zipfile/olefile/openpyxl/pypdf "
        "access to the input stream = arbitrary sequence of read-only stream operations (universally quantified)",
        "validated only (testing): determinism of third-party parsers across processes / hash seeds / time on the fixtures",
    ]
    ctx.assumptions += ["CPython 3.12 str.isspace set (re-derived from the interpreter on every run)",
                        "libraries given a stream opened for reading perform no write on it (checked by getvalue() on fixtures)"]

    import time as _time
    marks = [("start", _time.time())]
    ctx.extra["phase_s"] = {}

    def mark(name):
        ctx.extra["phase_s"][name] = round(_time.time() - marks[-1][1], 1)
        marks.append((name, _time.time()))

    # ---- X: inventories
    pkg = Pkg(REPO)
    sets, nd, stream, modes, writes = gen_sites(ctx, pkg)
    ctx.extra["set_sites"] = len(sets)
    ctx.extra["ordered_set_sites"] = [f"{x['file']}:{x['line']} {x['func']} {x['src']} {x['trace']}" for x in sets if x["use"] == "UOrdered"]
    ctx.extra["nd_sites"] = [f"{x['file']}:{x['line']} {x['kind']} -> {x['sink']}" for x in nd]
    ctx.extra["observer_writes"] = [f"{x['cls']}.{x['method']}:{x['line']} {x['what']}" for x in writes]
    ctx.extra["stream_methods"] = sorted({x["method"] for x in stream})
    ctx.count("X:set-sites", len(sets))
    ctx.count("X:nd-sites", len(nd))
    ctx.count("X:stream-sites", len(stream))
    ctx.obligation("interpreter-whitespace-set == C06.Lib.py_space",
                   [c for c in range(0x110000) if chr(c).isspace()] == PY_SPACE, "str.isspace set differs from the model")

    mark("inventories")
    # ---- proofs
    ctx.prove("C06/Props.v", ["C06/Proofs.vo"], expected=[
        "C06_pure_observers_frame", "C06_iterate_units_mutates_refuted", "C06_observers_idempotent_partial",
        "C06_observers_idempotent_fixed", "C06_observer_values_fixed", "C06_seed_independent_refuted",
        "C06_seed_independent_fixed", "C06_neutral_uses_seed_independent", "C06_ordered_use_refuted",
        "C06_input_untouched_serialize",
        "C06_input_untouched_validate_zip", "C06_readonly_ops_keep_buffer"])
    ctx.prove("C06/Inst.v", ["Gen/C06Sites.vo", "C06/Corr.vo"], expected=["C06_set_sites_neutral"])
    ctx.prove("C06/InstNd.v", ["Gen/C06Sites.vo"], expected=["C06_nd_sites_no_result_sink"])
    ctx.prove("C06/InstPure.v", ["Gen/C06Sites.vo"], expected=["C06_input_stream_readonly"])
    ctx.prove("C06/InstObs.v", ["Gen/C06Sites.vo"], expected=["C06_observers_do_not_store"])

    mark("proofs")
    # ---- D1: OdtContent.iterate_units vs the heap model
    rng = ctx.rng
    ncases = ctx.n(400, 4000)
    cases, infos = [], []
    for i in range(ncases):
        case = gen_odt_case(rng, rng.choice([0, 1, 2, 3, 5, 8, 12]))
        uv, heap_after = impl_iterate_units(case)
        cases.append(cq_case(case, uv, heap_after))
        infos.append(case)
        nontriv = bool(case["images"]) and bool(case["paragraphs"])
        ctx.case(("odt", json.dumps(case, sort_keys=True)), nontriv, kind="odt-object:" + ("headings" if any(
            p["outline"] is not None for p in case["paragraphs"]) else "flat"))
    pre = "From S2T Require Import Lib.PyStr C06.Lib C06.Model C06.Corr.\n"
    ty = "odt * heap * list (ounit image) * heap"
    okf, fail_f, logf = coq_eval_shards(ctx, "odt_fixed", pre, "(corr_case true)", cases, shard=250, ty=ty)
    oko, fail_o, logo = coq_eval_shards(ctx, "odt_orig", pre, "(corr_case false)", cases, shard=250, ty=ty)
    ctx.traces += len(cases)
    ctx.extra["odt_corr"] = {"cases": len(cases), "disagree_with_repaired_model": len(fail_f),
                             "disagree_with_model_of_code_as_found": len(fail_o)}
    detail = f"{len(fail_f)} of {len(cases)} cases disagree with the model of the repaired iterate_units; "
    if fail_f and oko and not fail_o:
        detail += "the implementation agrees with the model of the code AS FOUND (writes image.unit_name): C06_iterate_units_mutates_refuted applies; "
    if fail_f:
        detail += "first: " + json.dumps(infos[fail_f[0]])[:600]
    ctx.obligation("correspondence:OdtContent.iterate_units==heap model (repaired: no write to shared images)",
                   okf and not fail_f, detail + logf[:500])
    ctx.disagreements += len(fail_f)

    mark("odt-correspondence")
    # ---- D2: observer sequences on generated ODT objects and on every fixture result
    from sharepoint2text.parsing.router import get_extractor, is_supported_file
    resources = REPO / "sharepoint2text" / "tests" / "resources"
    seqs_per_obj = ctx.n(3, 12)

    def rand_seq():
        return [rng.choice(OBSERVERS) for _ in range(rng.randint(2, 7))] + ["to_json"]

    # the Coq witness of C06_iterate_units_mutates_refuted (Proofs.wit_c / wit_h), replayed on the real class first
    witness = {"title": "", "paragraphs": [{"text": "a", "style": None, "outline": None}], "tables": [],
               "heap": [{"caption": "", "description": "", "unit_name": None, "rest": "img"}], "images": [0], "full_text": "a"}
    for k, case in enumerate([witness] + infos[: ctx.n(200, 2000)]):
        c, _ = build_odt(case)
        seq = ["iterate_units", "to_json"] if k == 0 else rand_seq()
        for name, kind in observer_sequence_oracle(c, seq, "generated"):
            ctx.finding(f"observer-impure:OdtContent.{name}", f"OdtContent.{name}() {kind} (generated object, sequence {seq})",
                        {"case": case, "sequence": seq, "observer": name, "kind": kind})
        ctx.case(("seq", json.dumps(case, sort_keys=True), tuple(seq)), True, kind="observer-seq:generated")
    fixtures = [p for p in sorted(resources.rglob("*")) if p.is_file() and is_supported_file(str(p))]
    for p in fixtures:
        rel = str(p.relative_to(resources))
        try:
            objs = list(get_extractor(str(p))(io.BytesIO(p.read_bytes()), str(p)))
        except Exception:  # noqa  (encrypted / unsupported fixtures: nothing to observe)
            ctx.count("fixture:raises")
            continue
        for o in objs[:3]:
            for _ in range(seqs_per_obj):
                seq = rand_seq()
                for name, kind in observer_sequence_oracle(o, seq, rel):
                    ctx.finding(f"observer-impure:{type(o).__name__}.{name}",
                                f"{type(o).__name__}.{name}() {kind} (fixture {rel}, sequence {seq})",
                                {"fixture": rel, "sequence": seq, "observer": name, "kind": kind})
                ctx.case(("seq", rel, tuple(seq)), True, kind="observer-seq:" + type(o).__name__)

    mark("observer-sequences")
    # ---- D3: same input in-process twice, fresh processes, >= 8 hash seeds
    seeds = [0, 0, 1, 2, 3, 7, 42, 1234, 99999, 4294967295][: ctx.n(10, 10)]
    if ctx.tier == "thorough":
        seeds += [rng.randrange(2 ** 32) for _ in range(14)]
    with tempfile.TemporaryDirectory(dir="/var/tmp") as td:
        results = spawn_workers(ctx, seeds, resources, Path(td))
    ctx.obligation("workers>=8-hash-seeds", len({s for s, _ in results}) >= 8, f"only {len(results)} workers completed")
    if results:
        base_seed, base = results[0]
        for rel in sorted(base):
            r0 = base[rel][0]
            for run_ in base[rel]:
                if not run_["input_same"]:
                    ctx.finding(f"input-modified:{Path(rel).suffix.lower()}", f"extracting {rel} changed the caller's BytesIO content",
                                {"fixture": rel})
            # in-process repetition (every worker)
            for seed, res in results:
                a, b = res[rel]
                if a["digest"] != b["digest"]:
                    for path in diff_paths(a, b) or ["<digest only>"]:
                        ctx.finding(f"nondeterministic:{path}", f"{path} differs between two extractions of the same bytes in one "
                                    f"process (fixture {rel}, PYTHONHASHSEED={seed})",
                                    {"fixture": rel, "path": path, "mode": "in-process twice", "hashseed": seed})
            # across processes / seeds
            for seed, res in results[1:]:
                a = res[rel][0]
                if a["digest"] != r0["digest"]:
                    mode = "fresh process, same PYTHONHASHSEED" if seed == base_seed else "different PYTHONHASHSEED"
                    for path in diff_paths(r0, a) or ["<digest only>"]:
                        ctx.finding(f"nondeterministic:{path}", f"{path} differs between processes ({mode}: {base_seed} vs {seed}; "
                                    f"fixture {rel})", {"fixture": rel, "path": path, "mode": mode, "hashseeds": [base_seed, seed]})
            ctx.case(("seeds", rel, r0["digest"]), len(results) >= 2, kind="fixture-x-seeds:" + (r0["types"][0] if r0["types"] else "raises"))
        ctx.extra["fixtures"] = len(base)
        ctx.extra["hash_seeds"] = [s for s, _ in results]

    mark("seed-workers")
    # ---- D4: stream position/content discipline of the two modelled helpers (tie of Part C)
    stream_oracle(ctx)
    mark("stream")

    # ---- inventory findings reach the implementation: ORDERED set sites / RESULT sinks are reported with their location
    for x in sets:
        if x["use"] == "UOrdered":
            ctx.extra.setdefault("unneutralised", []).append(f"{x['file']}:{x['line']}")


META = {
    "technique": "Coq proof over a heap model of the content observers, a permutation-oracle model of set iteration and a "
                 "stream model of the input buffer + ast inventories regenerated per run (set uses, nondeterminism sinks, "
                 "input-stream methods, observer stores) decided by vm_compute + differential runs: real iterate_units vs "
                 "model, observer sequences, every fixture under >= 8 hash seeds / fresh processes",
    "design_ref": "DESIGN.md §5 C06",
    "level_text": "Proved (kernel): every observer other than iterate_units leaves the heap untouched; OdtContent.iterate_units "
                  "as found changes a later to_json() (refutation with witness, replayed); with the repaired method every "
                  "observer sequence leaves to_json() and every observer value unchanged; set-iteration order cannot reach a "
                  "result at any inventoried site classified member/len/sorted/any-all (and does at list(set): refutation), "
                  "sorted(set) is seed independent; _bytesio_to_base64 and validate_zip_bytesio restore position and content for "
                  "every read-only library behaviour. Validated only: cross-process / cross-seed / repeated extraction of all "
                  "fixtures (third-party parsers), input getvalue() unchanged.",
    "level_note": "Trusted: Coq kernel+VM; the ast inventories and their fail-closed classification; the hand-written heap model "
                  "(tied by differential runs); third-party libraries are oracles (set order, stream access) or tested only.",
}

if __name__ == "__main__":
    if len(sys.argv) > 1 and sys.argv[1] == "--worker":
        worker_main(sys.argv[2:])
