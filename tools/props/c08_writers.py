"""Writers for the C08 harness (test infrastructure, independent of the code under test):
minimal CFB/OLE2 writer, 7z header writer with arbitrary coder ids, ZIP flag/method patcher,
OLE stream surgery on fixtures, independent AES for writing AES-encrypted PDFs."""
from __future__ import annotations

import io
import struct
import zipfile
import zlib

# ----------------------------------------------------------------------------- CFB (OLE2), version 3
SECT = 512
ENDOFCHAIN, FREESECT, FATSECT, NOSTREAM = 0xFFFFFFFE, 0xFFFFFFFF, 0xFFFFFFFD, 0xFFFFFFFF


def cfb(streams, storages=()):
    """streams: [(name, bytes)] ; storages: [name] — all children of the root storage.
    Every stream is zero-padded to >= 4096 bytes (no mini stream)."""
    items = []
    for name, data in streams:
        if len(data) < 4096:
            data = data + b"\0" * (4096 - len(data))
        if len(data) % SECT:
            data = data + b"\0" * (SECT - len(data) % SECT)
        items.append([name, 2, data])
    for name in storages:
        items.append([name, 1, b""])
    n_entries = 1 + len(items)
    dir_sects = (n_entries + 3) // 4
    data_sects = sum(len(d) // SECT for _, _, d in items)
    fat_sects = 1
    while fat_sects * 128 < fat_sects + dir_sects + data_sects:
        fat_sects += 1
    assert fat_sects <= 109
    fat = [FREESECT] * (fat_sects * 128)
    for i in range(fat_sects):
        fat[i] = FATSECT
    first_dir = fat_sects
    for i in range(dir_sects):
        fat[first_dir + i] = first_dir + i + 1 if i + 1 < dir_sects else ENDOFCHAIN
    cur = first_dir + dir_sects
    starts = []
    for _, typ, d in items:
        k = len(d) // SECT
        if k == 0:
            starts.append(ENDOFCHAIN if typ == 2 else 0)
            continue
        starts.append(cur)
        for j in range(k):
            fat[cur + j] = cur + j + 1 if j + 1 < k else ENDOFCHAIN
        cur += k
    # red-black-agnostic balanced BST over the children, CFB ordering: (length, upper-case)
    order = sorted(range(len(items)), key=lambda i: (len(items[i][0].encode("utf-16-le")), items[i][0].upper()))
    left = {i: NOSTREAM for i in range(len(items))}
    right = {i: NOSTREAM for i in range(len(items))}

    def build(lo, hi):
        if lo >= hi:
            return NOSTREAM
        mid = (lo + hi) // 2
        i = order[mid]
        l, r = build(lo, mid), build(mid + 1, hi)
        left[i], right[i] = l, r
        return i + 1  # directory id (root is 0)

    root_child = build(0, len(order))

    def entry(name, typ, l, r, child, start, size):
        nb = name.encode("utf-16-le") + b"\0\0"
        assert len(nb) <= 64
        return (nb.ljust(64, b"\0") + struct.pack("<HBB", len(nb), typ, 1) + struct.pack("<III", l, r, child)
                + b"\0" * 16 + b"\0" * 4 + b"\0" * 16 + struct.pack("<IQ", start, size))

    d = entry("Root Entry", 5, NOSTREAM, NOSTREAM, root_child, ENDOFCHAIN, 0)
    for i, (name, typ, data) in enumerate(items):
        d += entry(name, typ, left[i], right[i], NOSTREAM, starts[i], len(data))
    d = d.ljust(dir_sects * SECT, b"\0")
    # unused directory entries: type 0
    hdr = (bytes.fromhex("D0CF11E0A1B11AE1") + b"\0" * 16 + struct.pack("<HHHHH", 0x3E, 3, 0xFFFE, 9, 6) + b"\0" * 6
           + struct.pack("<IIIIIIIII", 0, fat_sects, first_dir, 0, 4096, ENDOFCHAIN, 0, ENDOFCHAIN, 0))
    difat = [i for i in range(fat_sects)] + [FREESECT] * (109 - fat_sects)
    hdr += struct.pack("<109I", *difat)
    assert len(hdr) == 512
    out = hdr + struct.pack(f"<{len(fat)}I", *fat) + d
    for _, _, data in items:
        out += data
    return out


def ole_stream_offsets(data: bytes, stream: str):
    """File offsets of the bytes of a regular (non-mini) stream of an OLE file, via olefile's FAT:
    returns a function stream_offset -> file_offset, and the stream size."""
    import olefile
    ole = olefile.OleFileIO(io.BytesIO(data))
    try:
        sid = ole._find(stream)
        e = ole.direntries[sid]
        size, sect, ss = e.size, e.isectStart, ole.sectorsize

        def fat_chain(first, limit):
            c, sct = [], first
            while sct not in (ENDOFCHAIN, FREESECT) and len(c) * ss < limit:
                c.append(sct)
                sct = ole.fat[sct]
            return c
        if size < ole.minisectorcutoff:
            ole.loadminifat()
            ms = ole.minisectorsize
            root_chain = fat_chain(ole.root.isectStart, ole.root.size)
            mini, m = [], sect
            while m not in (ENDOFCHAIN, FREESECT) and len(mini) * ms < size:
                mini.append(m)
                m = ole.minifat[m]

            def f(off):
                pos = mini[off // ms] * ms + off % ms          # offset inside the mini stream
                return (root_chain[pos // ss] + 1) * ss + pos % ss
            return f, size
        chain = fat_chain(sect, size)
    finally:
        ole.close()
    return (lambda off: (chain[off // ss] + 1) * ss + off % ss), size


def ole_read_stream(data: bytes, stream: str) -> bytes:
    import olefile
    with olefile.OleFileIO(io.BytesIO(data)) as ole:
        return ole.openstream(stream).read()


def ole_patch(data: bytes, stream: str, edits) -> bytes:
    """edits: [(stream_offset, bytes)] — same-size surgery on a stream."""
    f, size = ole_stream_offsets(data, stream)
    b = bytearray(data)
    for off, new in edits:
        for k, v in enumerate(new):
            assert off + k < size
            b[f(off + k)] = v
    out = bytes(b)
    chk = ole_read_stream(out, stream)
    assert all(chk[off:off + len(new)] == bytes(new) for off, new in edits), "OLE surgery missed the stream"
    return out


# ----------------------------------------------------------------------------- ZIP patching
def zip_patch(data: bytes, name: bytes, flag_or: int = 0, method: int | None = None, where=("local", "central")) -> bytes:
    """Set bits in the general-purpose flag / replace the compression method of member `name`."""
    d = bytearray(data)
    i = 0
    while "local" in where:
        i = d.find(b"PK\x03\x04", i)
        if i < 0:
            break
        nl = struct.unpack_from("<H", d, i + 26)[0]
        if bytes(d[i + 30:i + 30 + nl]) == name:
            fl = struct.unpack_from("<H", d, i + 6)[0]
            struct.pack_into("<H", d, i + 6, fl | flag_or)
            if method is not None:
                struct.pack_into("<H", d, i + 8, method)
        i += 4
    i = 0
    while "central" in where:
        i = d.find(b"PK\x01\x02", i)
        if i < 0:
            break
        nl = struct.unpack_from("<H", d, i + 28)[0]
        if bytes(d[i + 46:i + 46 + nl]) == name:
            fl = struct.unpack_from("<H", d, i + 8)[0]
            struct.pack_into("<H", d, i + 8, fl | flag_or)
            if method is not None:
                struct.pack_into("<H", d, i + 10, method)
        i += 4
    return bytes(d)


def rezip(data: bytes, edit) -> bytes:
    """Rewrite a ZIP: edit([(name, bytes)]) -> [(name, bytes)]; `mimetype` stays first and stored."""
    zi = zipfile.ZipFile(io.BytesIO(data))
    items = edit([(i.filename, zi.read(i)) for i in zi.infolist()])
    bio = io.BytesIO()
    with zipfile.ZipFile(bio, "w") as zo:
        for n, d in items:
            zo.writestr(n, d, compress_type=zipfile.ZIP_STORED if n == "mimetype" else zipfile.ZIP_DEFLATED)
    return bio.getvalue()


# ----------------------------------------------------------------------------- 7z header writer
MAGIC7 = b"7z\xbc\xaf\x27\x1c"
COPY, LZMA, LZMA2, BCJ, AES = b"\x00", b"\x03\x01\x01", b"\x21", b"\x03\x03\x01\x03", b"\x06\xf1\x07\x01"


def num(n: int) -> bytes:
    for extra in range(0, 8):
        if n < (1 << (8 * extra + (7 - extra))):
            first = ((0xFF << (8 - extra)) & 0xFF) | (n >> (8 * extra))
            return bytes([first]) + (n & ((1 << (8 * extra)) - 1)).to_bytes(extra, "little")
    return b"\xff" + n.to_bytes(8, "little")


def bitvec(bits) -> bytes:
    out, cur, mask = bytearray(), 0, 0x80
    for b in bits:
        if b:
            cur |= mask
        mask >>= 1
        if mask == 0:
            out.append(cur)
            cur, mask = 0, 0x80
    if mask != 0x80:
        out.append(cur)
    return bytes(out)


def _folders_bytes(folders) -> bytes:
    """folders: [{"coders": [(id, props|None)], "unpack": [sizes]}]"""
    o = bytearray(b"\x07\x0b" + num(len(folders)) + b"\x00")
    for f in folders:
        o += num(len(f["coders"]))
        for cid, props in f["coders"]:
            o.append(len(cid) | (0x20 if props is not None else 0))
            o += cid
            if props is not None:
                o += num(len(props)) + props
        for i in range(len(f["coders"]) - 1):
            o += num(i + 1) + num(i)
    o.append(0x0C)
    for f in folders:
        for z in f["unpack"]:
            o += num(z)
    o.append(0x00)
    return bytes(o)


def sevenz(members, folder_coders, header="plain"):
    """members: [(name, bytes)], one folder per member, stored (the pack stream is the raw data, so a
    folder whose coders are all COPY/BCJ extracts correctly); folder_coders[i]: [(id, props|None)].
    header: 'plain' | 'lzma' (EncodedHeader, LZMA) | 'aes' (EncodedHeader whose folder has an AES coder,
    as written by 7z -mhe=on)."""
    import lzma
    area = b"".join(d for _, d in members)
    folders = [{"coders": cs, "unpack": [len(d)] * len(cs)} for (_, d), cs in zip(members, folder_coders)]
    o = bytearray([0x01, 0x04])
    o += b"\x06" + num(0) + num(len(members)) + b"\x09" + b"".join(num(len(d)) for _, d in members) + b"\x00"
    o += _folders_bytes(folders)
    o += b"\x08\x0a\x01" + b"".join(struct.pack("<I", zlib.crc32(d)) for _, d in members) + b"\x00"
    o += b"\x00"
    o += b"\x05" + num(len(members))
    nm = b"\x00" + b"".join(n.encode("utf-16-le") + b"\x00\x00" for n, _ in members)
    o += b"\x11" + num(len(nm)) + nm
    o += b"\x00\x00"
    hb = bytes(o)

    def sig(off, h):
        tail = struct.pack("<QQI", off, len(h), zlib.crc32(h) & 0xFFFFFFFF)
        return MAGIC7 + b"\x00\x04" + struct.pack("<I", zlib.crc32(tail)) + tail

    if header == "plain":
        return sig(len(area), hb) + area + hb
    if header == "lzma":
        props = bytes([0x5D]) + struct.pack("<I", 1 << 16)
        comp = lzma.compress(hb, format=lzma.FORMAT_RAW,
                             filters=[{"id": lzma.FILTER_LZMA1, "dict_size": 1 << 16, "lc": 3, "lp": 0, "pb": 2}])
        hf = [{"coders": [(LZMA, props)], "unpack": [len(hb)]}]
    else:
        comp = bytes((b * 7 + 13) & 0xFF for b in hb) + b"\0" * (-len(hb) % 16)  # stands for the AES ciphertext
        hf = [{"coders": [(AES, b"\x13\x00")], "unpack": [len(hb)]}]
    eh = bytearray([0x17])
    eh += b"\x06" + num(len(area)) + num(1) + b"\x09" + num(len(comp)) + b"\x00"
    eh += _folders_bytes(hf)
    eh += b"\x00"
    return sig(len(area) + len(comp), bytes(eh)) + area + comp + bytes(eh)


# ----------------------------------------------------------------------------- independent AES (for WRITING PDFs only)
def _aes_tables():
    # S-box from the algebraic definition (inverse in GF(2^8) + affine map) — independent of the repo's tables
    def mul(a, b):
        r = 0
        while b:
            if b & 1:
                r ^= a
            a = ((a << 1) ^ 0x11B) if a & 0x80 else (a << 1)
            b >>= 1
        return r & 0xFF
    inv = [0] * 256
    for a in range(1, 256):
        for b in range(1, 256):
            if mul(a, b) == 1:
                inv[a] = b
                break
    sbox = []
    for a in range(256):
        x = inv[a]
        y = x
        for _ in range(4):
            x = ((x << 1) | (x >> 7)) & 0xFF
            y ^= x
        sbox.append(y ^ 0x63)
    return sbox, mul


_SBOX, _MUL, _M2, _M3 = None, None, None, None
_KEYS = {}


def _expand(key):
    global _SBOX, _MUL, _M2, _M3
    if _SBOX is None:
        _SBOX, _MUL = _aes_tables()
        _M2 = [_MUL(a, 2) for a in range(256)]
        _M3 = [_MUL(a, 3) for a in range(256)]
    if key in _KEYS:
        return _KEYS[key]
    nk = len(key) // 4
    nr = nk + 6
    w = [list(key[4 * i:4 * i + 4]) for i in range(nk)]
    rc = 1
    for i in range(nk, 4 * (nr + 1)):
        t = list(w[i - 1])
        if i % nk == 0:
            t = t[1:] + t[:1]
            t = [_SBOX[b] for b in t]
            t[0] ^= rc
            rc = _MUL(rc, 2)
        elif nk > 6 and i % nk == 4:
            t = [_SBOX[b] for b in t]
        w.append([a ^ b for a, b in zip(w[i - nk], t)])
    rks = [[w[4 * r + i // 4][i % 4] for i in range(16)] for r in range(nr + 1)]
    if len(_KEYS) > 64:
        _KEYS.clear()
    _KEYS[key] = (rks, nr)
    return rks, nr


_SHIFT = [(i + 4 * (i % 4)) % 16 for i in range(16)]  # ShiftRows on a column-major state


def aes_encrypt_block(key: bytes, block: bytes) -> bytes:
    rks, nr = _expand(bytes(key))
    sb, m2, m3 = _SBOX, _M2, _M3
    s = [b ^ k for b, k in zip(block, rks[0])]
    for rnd in range(1, nr + 1):
        s = [sb[s[j]] for j in _SHIFT]
        if rnd != nr:
            t = []
            for c in (0, 4, 8, 12):
                a0, a1, a2, a3 = s[c], s[c + 1], s[c + 2], s[c + 3]
                t += [m2[a0] ^ m3[a1] ^ a2 ^ a3, a0 ^ m2[a1] ^ m3[a2] ^ a3, a0 ^ a1 ^ m2[a2] ^ m3[a3], m3[a0] ^ a1 ^ a2 ^ m2[a3]]
            s = t
        s = [b ^ k for b, k in zip(s, rks[rnd])]
    return bytes(s)


def aes_cbc_encrypt(key: bytes, iv: bytes, data: bytes) -> bytes:
    out, prev = bytearray(), iv
    for i in range(0, len(data), 16):
        blk = bytes(a ^ b for a, b in zip(data[i:i + 16], prev))
        prev = aes_encrypt_block(key, blk)
        out += prev
    return bytes(out)


def aes_ecb_encrypt(key: bytes, data: bytes) -> bytes:
    return b"".join(aes_encrypt_block(key, data[i:i + 16]) for i in range(0, len(data), 16))


# ----------------------------------------------------------------------------- legacy PPT: RC4 CryptoAPI encryption ([MS-PPT] 2.3.7, [MS-OFFCRYPTO] 2.3.5)
def rc4(key: bytes, data: bytes) -> bytes:
    s = list(range(256))
    j = 0
    for i in range(256):
        j = (j + s[i] + key[i % len(key)]) & 0xFF
        s[i], s[j] = s[j], s[i]
    i = j = 0
    out = bytearray()
    for b in data:
        i = (i + 1) & 0xFF
        j = (j + s[i]) & 0xFF
        s[i], s[j] = s[j], s[i]
        out.append(b ^ s[(s[i] + s[j]) & 0xFF])
    return bytes(out)


def ole_all_streams(data: bytes):
    """[(name, bytes)] of the root-level streams of an OLE file (root-level only; raises if there are storages)."""
    import olefile
    with olefile.OleFileIO(io.BytesIO(data)) as ole:
        out = []
        for p in ole.listdir(streams=True, storages=True):
            if len(p) != 1 or not ole.get_type(p) == olefile.STGTY_STREAM:
                raise ValueError("nested storage")
            out.append((p[0], ole.openstream(p).read()))
    return out


def ppt_encrypt(data: bytes, password="pw123", doc_props_encrypted=False, salt=bytes(range(16))) -> bytes:
    """Encrypt a single-edit PPT file with RC4 CryptoAPI as [MS-PPT] 2.3.7 describes: every persist object is
    RC4-encrypted with the key of its persist id, a CryptSession10Container becomes a new persist object, the
    UserEditAtom gets encryptSessionPersistIdRef, CurrentUserAtom.headerToken = 0xF3D1C4DF.
    doc_props_encrypted=False: fDocProps set, summary streams stay in the clear and NO EncryptedSummary stream
    exists; True: the summary streams are replaced by an EncryptedSummary stream."""
    import hashlib
    streams = dict(ole_all_streams(data))
    cu = bytearray(streams["Current User"])
    pd = bytearray(streams["PowerPoint Document"])
    off_edit = struct.unpack_from("<I", cu, 16)[0]
    _, typ, ln = struct.unpack_from("<HHI", pd, off_edit)
    assert typ == 0x0FF5 and ln == 28
    last_slide, version, off_last, off_dir, doc_ref, max_written, last_view = struct.unpack_from("<IIIIIIH", pd, off_edit + 8)
    assert off_last == 0, "single user edit expected"
    _, t2, dl = struct.unpack_from("<HHI", pd, off_dir)
    assert t2 == 0x1772 and off_dir + 8 + dl == off_edit and off_edit + 36 == len(pd)
    dir_body = bytes(pd[off_dir + 8: off_dir + 8 + dl])
    objs, k = {}, 0
    while k < len(dir_body):
        w = struct.unpack_from("<I", dir_body, k)[0]
        pid, cnt = w & 0xFFFFF, w >> 20
        k += 4
        for c in range(cnt):
            objs[pid + c] = struct.unpack_from("<I", dir_body, k)[0]
            k += 4
    h0 = hashlib.sha1(salt + password.encode("utf-16-le")).digest()

    def key(block):
        return hashlib.sha1(h0 + struct.pack("<I", block)).digest()[:16]
    for pid, off in objs.items():
        ln_obj = 8 + struct.unpack_from("<I", pd, off + 4)[0]
        pd[off:off + ln_obj] = rc4(key(pid), bytes(pd[off:off + ln_obj]))
    verifier = bytes((i * 11 + 5) & 0xFF for i in range(16))
    ev = rc4(key(0), verifier + hashlib.sha1(verifier).digest())
    csp = "Microsoft Enhanced Cryptographic Provider v1.0".encode("utf-16-le") + b"\0\0"
    flags = 0x04 | (0 if doc_props_encrypted else 0x08)       # fCryptoAPI, fDocProps
    hdr = struct.pack("<IIIIIIII", flags, 0, 0x6801, 0x8004, 128, 1, 0, 0) + csp
    body = struct.pack("<HHII", 4, 2, flags, len(hdr)) + hdr + struct.pack("<I", 16) + salt + ev[:16] + struct.pack("<I", 20) + ev[16:]
    crypt = struct.pack("<HHI", 0x000F, 0x2F14, len(body)) + body
    new_pid = max(objs) + 1
    off_crypt = off_dir
    new_dir_body = dir_body + struct.pack("<II", new_pid | (1 << 20), off_crypt)
    new_dir = struct.pack("<HHI", 0, 0x1772, len(new_dir_body)) + new_dir_body
    off_new_dir = off_crypt + len(crypt)
    off_new_edit = off_new_dir + len(new_dir)
    edit = struct.pack("<HHI", 0, 0x0FF5, 32) + struct.pack("<IIIIIIHH", last_slide, version, 0, off_new_dir, doc_ref,
                                                            max(max_written, new_pid), last_view, 0) + struct.pack("<I", new_pid)
    pd2 = bytes(pd[:off_dir]) + crypt + new_dir + edit
    struct.pack_into("<I", cu, 12, 0xF3D1C4DF)
    struct.pack_into("<I", cu, 16, off_new_edit)
    out = []
    for name, d in streams.items():
        if name == "Current User":
            out.append((name, bytes(cu)))
        elif name == "PowerPoint Document":
            out.append((name, pd2))
        elif name == "Pictures":
            out.append((name, rc4(key(0), d)))
        elif name in ("\x05SummaryInformation", "\x05DocumentSummaryInformation") and doc_props_encrypted:
            continue
        else:
            out.append((name, d))
    if doc_props_encrypted:
        blob = streams.get("\x05SummaryInformation", b"") + streams.get("\x05DocumentSummaryInformation", b"")
        out.append(("EncryptedSummary", rc4(key(0), blob)))
    return cfb(out)
