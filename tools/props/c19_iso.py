"""C19 helper: convert sequences of OMML trees, every sequence in its own freshly forked process.

Line protocol on stdin/stdout: one JSON list of XML strings per line in, one JSON list of [output|null, exception
class name] out.  The parent imports the converter once and never calls it, so every forked child starts from the
state "module imported, nothing converted yet"; the trees of one job are converted one after the other in ONE child
(a history).  A job with a single tree is the conversion of that tree in isolation."""
import json
import os
import sys
from xml.etree import ElementTree as ET


def main():
    from sharepoint2text.parsing.extractors.util.omml_to_latex import omml_to_latex
    for line in sys.stdin:
        job = json.loads(line)
        r, w = os.pipe()
        pid = os.fork()
        if pid == 0:
            os.close(r)
            out = []
            for x in job:
                try:
                    out.append([omml_to_latex(ET.fromstring(x)), ""])
                except Exception as e:  # noqa
                    out.append([None, type(e).__name__])
            with os.fdopen(w, "w") as f:
                f.write(json.dumps(out))
            os._exit(0)
        os.close(w)
        with os.fdopen(r) as f:
            data = f.read()
        os.waitpid(pid, 0)
        sys.stdout.write((data or "null") + "\n")
        sys.stdout.flush()


if __name__ == "__main__":
    main()
