"""C17 — removed markup (script/style/noscript/iframe/object/embed/applet, comments) is removed
completely and takes nothing else with it.

G: REMOVE_TAGS/_VOID_TAGS/BLOCK_TAGS (html_extractor, epub_extractor) and the str.isspace table are
   dumped from the live modules into Gen/C17Tables.v; C17/Inst.v re-decides the table premises.
D (event level): the real handle_starttag/handle_endtag/handle_data/handle_comment of
   _HtmlTreeBuilder and _XhtmlTextExtractor are driven with generated event lists (exhaustive short
   lists over a small alphabet + random longer ones); the complete object state is compared with the
   Coq model by vm_compute.
D (text level): generated HTML documents go through read_html, read_mhtml, read_epub (chapter) and
   the MSG HTML-body converter; oracle: every visible token once and in order, no removed token.
The property oracle (theorem right-hand sides) is also evaluated on the implementation directly.
"""
from __future__ import annotations

import base64
import io
import itertools
import quopri
import re
import zipfile

from common import coq_str, coq_list, coq_bool, coq_opt, coq_eval_shards

# HTML standard: void elements (no content, no end tag)
STD_VOID = {"area", "base", "br", "col", "embed", "hr", "img", "input", "link", "meta", "param", "source", "track", "wbr"}
# the elements the property statement names
STATEMENT_REMOVED = ["script", "style", "noscript", "iframe", "object", "embed", "applet"]


# ----------------------------------------------------------------------------- G
def gen_tables(ctx):
    from sharepoint2text.parsing.extractors import html_extractor as H
    from sharepoint2text.parsing.extractors import epub_extractor as E
    ws = [c for c in range(0x110000) if chr(c).isspace()]
    lst = lambda xs: coq_list([coq_str(x) for x in sorted(xs)])
    txt = "(* GENERATED on every check run from the live modules of the repo under test — do not edit. *)\n"
    txt += "From S2T Require Import Lib.PyStr.\n\n"
    txt += "Definition html_remove : list str := " + lst(H.REMOVE_TAGS) + ".\n"
    txt += "Definition html_void : list str := " + lst(H._VOID_TAGS) + ".\n"
    txt += "Definition html_block : list str := " + lst(H.BLOCK_TAGS) + ".\n"
    txt += "Definition epub_remove : list str := " + lst(E.REMOVE_TAGS) + ".\n"
    txt += "Definition epub_void : list str := " + lst(getattr(E, "_VOID_REMOVE_TAGS", ())) + ".\n"
    txt += "Definition epub_block : list str := " + lst(E.BLOCK_TAGS) + ".\n"
    txt += "Definition std_void : list str := " + lst(STD_VOID) + ".\n"
    txt += "Definition statement_removed : list str := " + lst(STATEMENT_REMOVED) + ".\n"
    txt += "Definition ws_table : list N := [" + ";".join(str(c) for c in ws) + "]%N.\n"
    ctx.gen_write("Gen/C17Tables.v", txt)
    return H, E


# ----------------------------------------------------------------------------- events
def ev_coq(e):
    k = e[0]
    if k == "S":
        attrs = coq_list(["(" + coq_str(a) + ", " + coq_opt(v, coq_str) + ")" for a, v in e[2]])
        return f"Start {coq_str(e[1].lower())} {attrs}"
    if k == "E":
        return f"End {coq_str(e[1].lower())}"
    if k == "D":
        return f"Data {coq_str(e[1])}"
    return f"Comment {coq_str(e[1])}"


def evs_coq(evs):
    return coq_list([ev_coq(e) for e in evs])


def drive(cls, evs):
    p = cls()
    for e in evs:
        k = e[0]
        if k == "S":
            p.handle_starttag(e[1], list(e[2]))
        elif k == "E":
            p.handle_endtag(e[1])
        elif k == "D":
            p.handle_data(e[1])
        else:
            p.handle_comment(e[1])
    return p


def skip_obs(p):
    d = p.skip_depth
    return d, (getattr(p, "_skip_tag", None) if d > 0 else None)


def html_obs(p):
    """Canonical observation of a _HtmlTreeBuilder: (tree, stack tags top first, last_closed set,
    skip_depth, _skip_tag while skipping) + the structural invariants the model relies on."""
    def conv(root):
        # iterative post-order (documents are sampled up to several hundred levels deep)
        done = {}
        stack = [(root, False)]
        while stack:
            n, seen = stack.pop()
            if seen:
                done[id(n)] = (n["tag"], tuple(n["attrs"].items()), n["text"], tuple(done[id(c)] for c in n["children"]), n["tail"])
            else:
                stack.append((n, True))
                stack.extend((c, False) for c in n["children"])
        return done[id(root)]
    inv = p.stack[0] is p.root
    for i in range(len(p.stack) - 1):
        ch = p.stack[i]["children"]
        inv = inv and bool(ch) and ch[-1] is p.stack[i + 1]
    if p.last_closed is not None:
        ch = p.stack[-1]["children"]
        inv = inv and bool(ch) and ch[-1] is p.last_closed
    d, t = skip_obs(p)
    from sharepoint2text.parsing.extractors.html_extractor import _HtmlTextExtractor
    flat = _HtmlTextExtractor(p.get_tree())._get_node_text(p.get_tree())
    return (conv(p.get_tree()), tuple(n["tag"] for n in reversed(p.stack)), p.last_closed is not None, d, t, flat), inv


def node_coq(n):
    tag, attrs, text, kids, tail = n
    a = coq_list(["(" + coq_str(k) + ", " + coq_str(v) + ")" for k, v in attrs])
    return f"(Node {coq_str(tag)} {a} {coq_str(text)} {coq_list([node_coq(k) for k in kids])} {coq_str(tail)})"


def html_obs_coq(o):
    tree, stk, haslc, d, t, flat = o
    return (f"({node_coq(tree)}, {coq_list([coq_str(x) for x in stk])}, {coq_bool(haslc)}, {d}%nat, {coq_opt(t, coq_str)}, "
            f"{coq_str(flat)})")


def epub_obs(p):
    d, t = skip_obs(p)
    return (tuple(p.text_parts), bool(p.in_block), tuple(tuple(tuple(r) for r in tb) for tb in p.tables),
            tuple(tuple(r) for r in p._current_table), tuple(p._current_row), tuple(p._current_cell),
            bool(p._in_table), bool(p._in_cell), p._title, bool(p._in_title), d, t)


def epub_obs_coq(o):
    ls = lambda xs: coq_list([coq_str(x) for x in xs])
    lls = lambda xss: coq_list([ls(x) for x in xss])
    p, ib, tb, ct, cr, cc, it, ic, ti, itl, d, t = o
    return (f"({ls(p)}, {coq_bool(ib)}, {coq_list([lls(x) for x in tb])}, {lls(ct)}, {ls(cr)}, {ls(cc)}, "
            f"{coq_bool(it)}, {coq_bool(ic)}, {coq_str(ti)}, {coq_bool(itl)}, {d}%nat, {coq_opt(t, coq_str)})")


def closes(r, inner):
    """Python twin of Model.closes r 0 inner (used to generate inputs inside the hypothesis)."""
    k = 0
    for e in inner:
        if e[0] == "S" and e[1].lower() == r:
            k += 1
        elif e[0] == "E" and e[1].lower() == r:
            if k == 0:
                return False
            k -= 1
    return k == 0


def spec_visible_text(evs):
    """Python twin of Model.visible_text with the STANDARD tables (property statement's removable
    elements, HTML void elements): the Data outside removed elements, concatenated."""
    depth, tag, out = 0, None, []
    for e in evs:
        k = e[0]
        g = e[1].lower() if k in ("S", "E") else None
        if k == "S":
            if depth > 0:
                depth += (g == tag)
            elif g in STATEMENT_REMOVED and g not in STD_VOID:
                depth, tag = 1, g
        elif k == "E":
            if depth > 0:
                depth -= (g == tag)
        elif k == "D" and depth == 0:
            out.append(e[1])
    return "".join(out)


# nesting depths / sibling counts that are sampled (small values, powers of two and round numbers with their neighbours):
# behaviour must not change with scale (caps, thresholds, recursion guards)
SCALES = [1, 2, 3, 8, 16, 17, 32, 33, 50, 64, 65, 100, 101, 128, 129, 200, 201, 250, 255, 256, 257, 258, 300, 400, 500, 512, 513, 600]


def deep_events(shape, d, tags):
    """(pre, closing): d elements opened (and left open: 'unclosed', or closed afterwards: 'nested'), or d closed siblings ('wide')"""
    pre, closing = [], []
    for i in range(d):
        tg = tags[i % len(tags)]
        if shape == "wide":
            pre += [("S", tg, ()), ("D", "w"), ("E", tg)]
        else:
            pre += [("S", tg, ()), ("D", "l ")]
            if shape == "nested":
                closing.insert(0, ("E", tg))
    return pre, closing


DATA = ["x", " y ", "a\nb", "\u00a0z", "T\u2003w", ""]
ATTRS = [(), (("href", "u"),), (("id", "a"), ("id", "b")), (("hidden", None), ("src", "x")), (("class", "c"), ("x", None), ("class", "d"))]


def exhaustive(tags, maxlen):
    alpha = [("S", t, ()) for t in tags] + [("E", t) for t in tags] + [("D", "x"), ("D", " y"), ("C", "c")]
    for n in range(0, maxlen + 1):
        for tup in itertools.product(alpha, repeat=n):
            yield list(tup)


def random_events(rng, tags, n):
    """Mostly well-nested event list with perturbations (unclosed, stray ends, void, mixed case)."""
    out, open_ = [], []
    for _ in range(n):
        c = rng.random()
        if c < 0.38:
            t = rng.choice(tags)
            if rng.random() < 0.08:
                t = t.upper() if rng.random() < 0.5 else t.capitalize()
            out.append(("S", t, rng.choice(ATTRS)))
            if t.lower() not in STD_VOID and rng.random() < 0.85:
                open_.append(t)
            elif rng.random() < 0.3:
                out.append(("E", t))          # startend form
        elif c < 0.68:
            if open_ and rng.random() < 0.8:
                out.append(("E", open_.pop()))
            else:
                out.append(("E", rng.choice(tags)))   # stray
        elif c < 0.93:
            out.append(("D", rng.choice(DATA)))
        else:
            out.append(("C", rng.choice(["c", "<p>x</p>", "</noscript>"])))
    return out


def event_correspondence(ctx, H, E):
    rng = ctx.rng
    html_tags6 = ["p", "b", "noscript", "script", "embed", "img"]
    html_more = html_tags6 + ["object", "iframe", "style", "applet", "br", "table", "tr", "td", "a", "root", "title", "div", "li", "param"]
    epub_tags8 = ["p", "noscript", "embed", "img", "table", "tr", "td", "title"]
    epub_tags6 = ["p", "noscript", "embed", "img", "table", "td"]
    epub_more = epub_tags8 + ["script", "object", "th", "br", "b", "h1", "div", "style", "iframe", "applet", "li"]
    L = ctx.n(3, 4)
    html_lists = list(exhaustive(html_tags6, L))
    epub_lists = (list(exhaustive(epub_tags6, 3)) if L == 3 else
                  list(exhaustive(epub_tags8, 3)) + [l for l in exhaustive(epub_tags6, 4) if len(l) == 4])
    for _ in range(ctx.n(250, 5000)):
        html_lists.append(random_events(rng, html_more, rng.randint(4, 24)))
        epub_lists.append(random_events(rng, epub_more, rng.randint(4, 24)))

    # scale: deep stacks and long sibling runs, with a removable element at the far end (model has no notion of a cap)
    for d in ((129, 257) if L == 3 else (64, 129, 257, 300, 513)):
        for shape, tags in (("unclosed", ["p", "li", "font"]), ("nested", ["div", "blockquote"]), ("wide", ["p", "td"])):
            pre_e, closing = deep_events(shape, d, tags)
            r = rng.choice(["script", "noscript", "object", "iframe", "style", "applet"])
            seg = [("S", r, ()), ("D", "hid"), ("S", "img", ()), ("E", "b"), ("E", r)]
            html_lists.append(pre_e + seg + [("D", "after")] + closing + [("D", "end")])
            epub_lists.append(pre_e + seg + [("D", "after")] + closing + [("D", "end")])
    pre = "From S2T Require Import Lib.PyStr C17.Model C17.Corr Gen.C17Tables.\n"
    # ---- HTML
    cases, bad_inv, raised = [], [], []
    for evs in html_lists:
        try:
            o, inv = html_obs(drive(H._HtmlTreeBuilder, evs))
        except Exception as ex:  # noqa
            raised.append((evs, repr(ex)))
            continue
        if not inv:
            bad_inv.append(evs)
        if o[5] != spec_visible_text(evs):
            ctx.finding("html:tree-text", f"html: text of the built tree {o[5]!r} is not the visible Data {spec_visible_text(evs)!r} "
                        f"for events {evs!r}", {"machine": "html", "events": evs, "tree_text": o[5], "expected": spec_visible_text(evs)})
        cases.append(f"({evs_coq(evs)}, {html_obs_coq(o)})")
        ctx.case(("html-ev", evs), any(e[0] == "S" and e[1].lower() in H.REMOVE_TAGS for e in evs), kind=f"html-events:{min(len(evs), 5)}{'+' if len(evs) >= 5 else ''}")
    ok, failing, log = coq_eval_shards(ctx, "html", pre, "(html_case html_remove html_void)", cases, shard=500,
                                       ty="list event * html_obs")
    ctx.traces += len(cases)
    ctx.disagreements += len(failing)
    first = html_lists[failing[0]] if failing else ""
    ctx.obligation("correspondence:_HtmlTreeBuilder state == model on event lists", ok and not failing and not raised,
                   (f"{len(failing)} disagreements of {len(cases)}, first: {first!r}; raised: {raised[:1]} " + log)[:1500])
    ctx.obligation("correspondence:_HtmlTreeBuilder structural invariant (stack chain, last_closed is last child)",
                   not bad_inv, f"violated on {bad_inv[:1]!r}")
    ctx.extra["html_event_cases"] = len(cases)

    # ---- EPUB
    cases, raised = [], []
    for evs in epub_lists:
        try:
            o = epub_obs(drive(E._XhtmlTextExtractor, evs))
        except Exception as ex:  # noqa
            raised.append((evs, repr(ex)))
            continue
        cases.append(f"({evs_coq(evs)}, {epub_obs_coq(o)})")
        ctx.case(("epub-ev", evs), any(e[0] == "S" and e[1].lower() in E.REMOVE_TAGS for e in evs), kind=f"epub-events:{min(len(evs), 5)}{'+' if len(evs) >= 5 else ''}")
    ok, failing, log = coq_eval_shards(ctx, "epub", pre, "(epub_case epub_remove epub_void epub_block ws_table)", cases,
                                       shard=500, ty="list event * epub_obs")
    ctx.traces += len(cases)
    ctx.disagreements += len(failing)
    first = epub_lists[failing[0]] if failing else ""
    ctx.obligation("correspondence:_XhtmlTextExtractor state == model on event lists", ok and not failing and not raised,
                   (f"{len(failing)} disagreements of {len(cases)}, first: {first!r}; raised: {raised[:1]} " + log)[:1500])
    ctx.extra["epub_event_cases"] = len(cases)

    # ---- whitespace normalisation glue (py_normcell == _normalize_ws(" ".join(cell).strip()))
    ws_chars = [" ", "\t", "\n", "\u00a0", "\u2003", "\x1c", "\x85", "\u3000", "\u200b", "a", "b", "Z", "\u00e9"]
    cells = [[], [""], [" "], ["a"], [" a ", "b"], [" a b "], ["a", "", "b"]]
    for _ in range(ctx.n(300, 3000)):
        cells.append(["".join(rng.choice(ws_chars) for _ in range(rng.randint(0, 6))) for _ in range(rng.randint(0, 4))])
    nc = [f"({coq_list([coq_str(x) for x in c])}, {coq_str(E._XhtmlTextExtractor._normalize_ws(' '.join(c).strip()))})" for c in cells]
    ok, failing, log = coq_eval_shards(ctx, "normcell", pre, "(normcell_case ws_table)", nc, shard=1000, ty="list str * str")
    ctx.obligation("correspondence:py_normcell == _normalize_ws(' '.join(cell).strip())", ok and not failing,
                   (f"{len(failing)} disagreements, first: {cells[failing[0]] if failing else ''!r} " + log)[:800])


# ----------------------------------------------------------------------------- event-level property oracle
def classify_inner(item_kind):
    return item_kind


def event_oracle(ctx, H, E):
    """Theorem right-hand sides evaluated on the implementation: the handler state after
    pre ++ <r> inner </r> ++ post equals the state after pre ++ post."""
    rng = ctx.rng
    machines = [("html", H._HtmlTreeBuilder, lambda p: html_obs(p)[0], H.REMOVE_TAGS),
                ("epub", E._XhtmlTextExtractor, epub_obs, E.REMOVE_TAGS)]
    tags = ["p", "b", "img", "br", "param", "div", "li", "td", "tr", "table", "a", "span", "input", "source", "title", "h1"]
    # single inner events by kind (for classification of a failure) ------------------------------
    singles = {
        "void-child": [("S", "img", (("src", "x"),))],
        "unclosed-child": [("S", "p", ()), ("D", "hid")],
        "stray-end-tag": [("E", "b"), ("D", "hid")],
        "nested-removable": [("S", "script", ()), ("D", "hid"), ("E", "script")],
        "comment": [("C", "hid")],
        "text": [("D", "hid")],
        "selfclosed-child": [("S", "img", ()), ("E", "img")],
    }
    pre0 = [("S", "p", ()), ("D", "before"), ("E", "p")]
    post0 = [("S", "p", ()), ("D", "after"), ("E", "p")]

    fails = ctx.extra.setdefault("oracle_failures", {})

    def same(name, cls, obs, a, b):
        try:
            ok = obs(drive(cls, a)) == obs(drive(cls, b))
        except Exception:  # noqa
            ok = False
        if not ok:
            fails[name + "-event"] = fails.get(name + "-event", 0) + 1
        return ok

    for name, cls, obs, remove in machines:
        removable = sorted(set(STATEMENT_REMOVED) | set(remove))
        # fixed probes: every removable tag x every single-inner kind
        for r in removable:
            if r in STD_VOID:
                for form, seg in (("void-removable", [("S", r, (("src", "x"),))]),
                                  ("void-removable-selfclosed", [("S", r, ()), ("E", r)])):
                    ctx.case((name, r, form), True, kind=f"{name}-oracle:{form}")
                    if not same(name, cls, obs, pre0 + seg + post0, pre0 + post0):
                        ctx.finding(f"{name}:{form}", f"{name}: void removable <{r}> changes what follows "
                                    f"(events {pre0 + seg + post0!r})",
                                    {"machine": name, "events": pre0 + seg + post0, "without": pre0 + post0})
                continue
            for kind, inner in singles.items():
                a = pre0 + [("S", r, ())] + inner + [("E", r)] + post0
                ctx.case((name, r, kind), True, kind=f"{name}-oracle:{kind}")
                if not same(name, cls, obs, a, pre0 + post0):
                    ctx.finding(f"{name}:removed-{kind}", f"{name}: <{r}> containing {kind} is not removed cleanly "
                                f"(state after the element differs from the state without it)",
                                {"machine": name, "events": a, "without": pre0 + post0})
        # order clause: [closed child, removed element, text, another child] inside one parent / one table cell
        for open_, close_ in (([("S", "p", ())], [("E", "p")]),
                              ([("S", "table", ()), ("S", "tr", ()), ("S", "td", ())], [("E", "td"), ("E", "tr"), ("E", "table")])):
            sib_pre = open_ + [("D", "A "), ("S", "b", ()), ("D", "B"), ("E", "b")]
            sib_post = [("D", " C "), ("S", "i", ()), ("D", "D"), ("E", "i")] + close_
            for r in removable:
                seg = ([("S", r, (("src", "x"),))] if r in STD_VOID else [("S", r, ()), ("D", "hid"), ("S", "img", ()), ("E", r)])
                a = sib_pre + seg + sib_post
                ctx.case((name, "order", a), True, kind=f"{name}-oracle:order")
                if not same(name, cls, obs, a, sib_pre + sib_post):
                    ctx.finding(f"{name}:order-around-removed", f"{name}: <{r}> between a closed sibling and following text changes where "
                                f"that text is attached (events {a!r})", {"machine": name, "events": a, "without": sib_pre + sib_post})
        # scale: the element is removed cleanly however many elements are open / have been seen before it
        for shape, tagset in (("unclosed", ["p", "li", "font", "td"]), ("nested", ["div", "blockquote", "span"]), ("wide", ["p", "tr", "td"])):
            reported = False
            for d in SCALES:
                pre_e, closing = deep_events(shape, d, tagset)
                r = rng.choice([x for x in removable if x not in STD_VOID])
                seg = rng.choice([[("S", r, ()), ("D", "hid"), ("E", r)],
                                  [("S", r, (("src", "x"),)), ("S", "img", ()), ("D", "hid"), ("S", "p", ()), ("E", "b"), ("E", r)],
                                  [("S", "embed", ())], [("S", r, ()), ("E", r)]])
                a = pre_e + seg + [("D", "after")] + closing + [("D", "end")]
                b = pre_e + [("D", "after")] + closing + [("D", "end")]
                ctx.case((name, "scale", shape, d, r), True, kind=f"{name}-oracle:scale-{shape}")
                if not reported and not same(name, cls, obs, a, b):
                    reported = True
                    ctx.finding(f"{name}:removed-at-scale-{shape}", f"{name}: a removable element after {d} {shape} elements is not removed cleanly "
                                f"(segment {seg!r}); smaller scales of the sample {SCALES} are fine",
                                {"machine": name, "events": a, "without": b, "scale": d, "shape": shape})
        # comments at visible positions are inert
        for a, b in (([("S", "p", ()), ("D", "a"), ("C", "hid"), ("D", "b"), ("E", "p")], [("S", "p", ()), ("D", "a"), ("D", "b"), ("E", "p")]),
                     (pre0 + [("C", "<p>hid</p>")] + post0, pre0 + post0),
                     ([("C", "hid")] + post0, post0)):
            ctx.case((name, "comment-visible", a), True, kind=f"{name}-oracle:comment-visible")
            if not same(name, cls, obs, a, b):
                ctx.finding(f"{name}:comment-visible", f"{name}: a comment at a visible position changes the state (events {a!r})",
                            {"machine": name, "events": a, "without": b})
        for _ in range(ctx.n(1000, 10000)):
            evs = random_events(rng, tags + removable, rng.randint(0, 12))
            i = rng.randint(0, len(evs))
            a = evs[:i] + [("C", rng.choice(["hid", "<p>hid</p>", "</noscript>"]))] + evs[i:]
            ctx.case((name, "comment-rand", a), True, kind=f"{name}-oracle:comment-random")
            if not same(name, cls, obs, a, evs):
                ctx.finding(f"{name}:comment-visible", f"{name}: a comment changes the state (events {a!r})",
                            {"machine": name, "events": a, "without": evs})
        # random probes
        for _ in range(ctx.n(6000, 60000)):
            pre = random_events(rng, tags, rng.randint(0, 8))
            try:
                if drive(cls, pre).skip_depth != 0:
                    continue
            except Exception:  # noqa
                continue
            r = rng.choice([x for x in removable if x not in STD_VOID])
            inner = random_events(rng, tags + removable, rng.randint(0, 10))
            if not closes(r, inner):
                continue
            post = random_events(rng, tags + removable, rng.randint(0, 8))
            a = pre + [("S", r, rng.choice(ATTRS))] + inner + [("E", r)] + post
            b = pre + post
            ctx.case((name, "rand", a), bool(inner) and bool(post), kind=f"{name}-oracle:random")
            if not same(name, cls, obs, a, b):
                # classify by the first single inner event kind that fails on its own
                kind = "other"
                for e in inner:
                    k = ("void-child" if e[0] == "S" and e[1].lower() in STD_VOID else
                         "nested-removable" if e[0] == "S" and e[1].lower() in removable else
                         "unclosed-child" if e[0] == "S" else "stray-end-tag" if e[0] == "E" else None)
                    if k and not same(name, cls, obs, pre0 + [("S", r, ()), e, ("D", "hid"), ("E", r)] + post0, pre0 + post0):
                        kind = k
                        break
                ctx.finding(f"{name}:removed-{kind}", f"{name}: <{r}> with inner events {inner!r} is not removed cleanly",
                            {"machine": name, "events": a, "without": b})


# ----------------------------------------------------------------------------- text level
class Doc:
    """Generated document: pieces of markup with the visible tokens (in order) and hidden tokens."""
    def __init__(self, rng):
        self.rng = rng
        self.nv = 0
        self.nh = 0
        self.visible = []      # tokens expected in the running text, in order
        self.cells = []        # tokens expected in table cells
        self.hidden = []
        self.features = set()

    def vis(self, cell=False):
        self.nv += 1
        t = f"vis{self.nv}z"
        (self.cells if cell else self.visible).append(t)
        return t

    def hid(self):
        self.nh += 1
        t = f"hid{self.nh}z"
        self.hidden.append(t)
        return t

    # content of a removed element ------------------------------------------------------------
    def inner_item(self, r, depth):
        rng = self.rng
        kinds = ["text", "void-child", "selfclosed-child", "element", "unclosed-child", "stray-end-tag",
                 "nested-removable", "comment", "cdata"]
        k = rng.choice(kinds)
        self.features.add(k)
        if k == "text":
            return " " + self.hid() + " "
        if k == "void-child":
            return rng.choice(['<img src="x.png" alt="%s">' % self.hid(), "<br>", '<input type="hidden" value="%s">' % self.hid(),
                               '<param name="movie" value="%s">' % self.hid(), '<source src="a.mp4">', '<img src=x>'])
        if k == "selfclosed-child":
            return rng.choice(['<img src="x.png"/>', "<br/>", '<param name="a" value="b"/>', "<p/>", "<hr />"])
        if k == "element":
            return rng.choice(["<p>%s</p>", "<b>%s</b>", '<a href="u">%s</a>', "<div><span>%s</span></div>"]) % self.hid()
        if k == "unclosed-child":
            return rng.choice(["<p>%s", "<li>%s", "<b>%s", "<div>%s"]) % self.hid()
        if k == "stray-end-tag":
            return rng.choice(["</b>", "</p>", "</div>", "</span>", "</td>"]) + self.hid()
        if k == "nested-removable":
            if depth >= 2:
                return "<script>%s</script>" % self.hostile_raw()
            if rng.random() < 0.25:
                self.features.add("selfclosed-removable")
                return f'<{r} data="a.png"/>' + self.hid()     # same-name empty element inside the removed element
            r2 = rng.choice(["script", "style", "noscript", "iframe", "object", "applet", "embed"])
            return self.removable(r2, depth + 1)
        if k == "comment":
            return rng.choice(["<!-- %s -->", "<!-- <p>%s</p> -->", "<!--[if IE]>%s<![endif]-->"]) % self.hid()
        return "<![CDATA[ %s ]]>" % self.hid()

    RAW = ["<!--", "-->", "<script", '<script src="x.js">', "<\\/script>", "</scr'+'ipt>", "<style>", "<style", "a<b", "if(a<b){c>d}",
           "]]>", "<![CDATA[", "//<![CDATA[", "//]]>", "'", '"', "</b>", "</p>", "<p>%s</p>", "&amp;", "&lt;",
           "document.write('<script src=\"x.js\"><\\/script>');", 'var s="<!--";', "<!-- p{} ", "\n", " ", ";", "%s", "var a='%s';",
           ".c > p { color: %s }", "/* </b> */", "<!-- %s //-->"]

    def hostile_raw(self):
        """raw-text content for script/style from the hostile alphabet (never contains '</script' / '</style')"""
        rng = self.rng
        self.features.add("hostile-raw")
        out = []
        for _ in range(rng.randint(1, 6)):
            pc = rng.choice(self.RAW)
            out.append(pc % self.hid() if "%s" in pc else pc)
        return rng.choice(["", " ", "\n"]).join(out)

    def embed_child(self):
        self.features.add("embed-child")
        return self.rng.choice(['<embed src="m.swf">', '<embed src="m.swf"/>', '<embed src="m.swf"></embed>', "<embed/>",
                                "<embed></embed>"]) + " " + self.hid() + " "

    def hostile_text(self):
        self.features.add("hostile-text")
        return self.rng.choice([" a < b %s ", " %s ]]> ", " --> %s ", ' "%s" ', " '%s' ", " &lt;script&gt;%s&lt;/script&gt; ",
                                "<!-- <script> %s -->", "<!-- --><!---->%s", "<![CDATA[ <p>%s</p> ]]>"]) % self.hid()

    def removable(self, r, depth=0):
        rng = self.rng
        self.features.add("rem:" + r)
        if r == "embed":
            self.features.add("void-removable")
            return rng.choice(['<embed src="m.swf" type="%s">' % self.hid(), "<embed src=x>", '<embed src="x"/>'])
        if rng.random() < 0.15:
            # XML empty-element syntax of a NON-void removable element: html.parser delivers Start;End
            self.features.add("selfclosed-removable")
            return f"<{r}" + rng.choice([' src="x.js"/>', "/>", ' data="a.png" />', ' type="text/css"/>'])
        if r in ("script", "style"):
            attrs = rng.choice(["", "", ' type="text/x"', " defer"])
            return f"<{r}{attrs}>{self.hostile_raw()}</{r}>"
        items = []
        for _ in range(rng.randint(0, 4)):
            c = rng.random()
            items.append(self.embed_child() if c < 0.2 else self.hostile_text() if c < 0.35 else self.inner_item(r, depth))
        attrs = rng.choice(["", ' class="c"', ' data="m.swf" width=1', ' src="about:blank"'])
        return f"<{r}{attrs}>" + "".join(items) + f"</{r}>"

    def any_removable(self):
        return self.removable(self.rng.choice(STATEMENT_REMOVED))

    def maybe(self, p=0.5):
        return self.any_removable() if self.rng.random() < p else ""

    # visible blocks ---------------------------------------------------------------------------
    def block(self):
        rng = self.rng
        k = rng.choice(["p", "div", "h", "list", "table", "link", "br", "inline-rem", "hr", "comment", "comment", "siblings", "siblings",
                        "cell-siblings"])
        if k == "siblings":
            self.features.add("order")
            a, b = self.vis(), self.vis()
            rem = self.any_removable()
            return f"<p>{a} <b>{b}</b>{rem} {self.vis()} <i>{self.vis()}</i> {self.vis()}</p>"
        if k == "cell-siblings":
            self.features.add("order")
            self.features.add("table")
            a, b = self.vis(True), self.vis(True)
            rem = self.any_removable()
            return f"<table><tr><td>{a}<b>{b}</b>{rem}{self.vis(True)}<i>{self.vis(True)}</i></td><td>{self.vis(True)}</td></tr></table>"
        if k == "comment":
            self.features.add("comment-visible")
            c = rng.randint(0, 3)
            if c == 0:
                return f"<p>{self.vis()} <!-- {self.hid()} --> {self.vis()}</p>"
            if c == 1:
                return f"<!-- <p>{self.hid()}</p> -->"
            if c == 2:
                return f"<div>{self.vis()}<!--{self.hid()}--></div>"
            return f"<!--[if lt IE 9]><p>{self.hid()}</p><![endif]-->"
        if k == "p":
            return f"<p>{self.vis()}</p>"
        if k == "div":
            return f"<div>{self.vis()} <b>{self.vis()}</b> {self.vis()}</div>"
        if k == "h":
            return f"<h2>{self.vis()}</h2>"
        if k == "list":
            return "<ul><li>%s</li><li>%s%s</li></ul>" % (self.vis(), self.maybe(0.4), self.vis())
        if k == "table":
            self.features.add("table")
            return ("<table><tr><td>%s</td><td>%s%s</td></tr><tr><td>%s</td><td>%s</td></tr></table>"
                    % (self.vis(True), self.maybe(0.4), self.vis(True), self.vis(True), self.vis(True)))
        if k == "link":
            return f'<p><a href="http://e/x">{self.vis()}</a></p>'
        if k == "br":
            return f"<p>{self.vis()}<br>{self.vis()} <img src=x> {self.vis()}</p>"
        if k == "inline-rem":
            return f"<p>{self.vis()} {self.any_removable()} {self.vis()}</p>"
        return "<hr>"

    def body(self, nblocks):
        out = [f"<p>{self.vis()}</p>"]
        for _ in range(nblocks):
            if self.rng.random() < 0.55:
                out.append(self.any_removable())
            out.append(self.block())
        out.append(f"<p>{self.vis()}</p>")
        return "\n".join(out)


# how a document may END (input truncated inside a construct): nothing of the tail is visible text
EOF_TAILS = {
    "open-comment": ["<!-- %s <b>bold</b> never terminated", "<!--%s", "<!-- %s --", "<!-- %s -", "<!--[if IE]><p>%s</p>"],
    "open-cdata": ["<![CDATA[ %s", "<![CDATA[ <p>%s</p> ]]", "<![if !IE]%s"],
    "open-tag": ['<p class="%s', "<img alt='%s", "<a href=%s", "</p %s", '<div data-x="%s" '],
    "open-decl": ["<!DOCTYPE %s", "<?xml-stylesheet %s", "<!ELEMENT %s"],
    "open-raw-text": ["<script>var %s = 1;", "<style>.%s{}", "<script><!-- %s", '<script type="x">document.write("<p>%s</p>")'],
    "open-removable": ["<noscript>%s", '<iframe src="x"><p>%s</p>', "<object><param name=a>%s", "<applet>%s <b>x</b>"],
}

TOK = re.compile(r"(?:vis|hid)\d+z")


def check_tokens(text, extra_fields, visible, cells, hidden, table_texts):
    """Oracle: visible tokens once and in order in the text, cell tokens present in the tables,
    no hidden token anywhere.  Returns a reason string or None."""
    found = [t for t in TOK.findall(text)]
    leaked = [t for t in found if t.startswith("hid")]
    for f in extra_fields:
        leaked += [t for t in TOK.findall(f) if t.startswith("hid")]
    if leaked:
        return f"removed content leaked: {leaked[:3]}"
    vis_found = [t for t in found if t.startswith("vis")]
    want = visible if table_texts is None else visible
    if table_texts is None:
        # HTML family: table cells are rendered into the text as well; keep document order
        want = sorted(visible + cells, key=lambda t: int(t[3:-1]))
    if vis_found != want:
        missing = [t for t in want if t not in vis_found]
        if missing:
            return f"visible text lost: {missing[:3]} (of {len(want)})"
        return "visible tokens duplicated or reordered"
    if table_texts is not None:
        tf = [t for t in TOK.findall(" ".join(table_texts)) if t.startswith("vis")]
        if tf != cells:
            return f"table cell text lost: {[t for t in cells if t not in tf][:3]}"
    return None


def wrap_full(body, head_extra=""):
    return ('<!DOCTYPE html>\n<html lang="en"><head><meta charset="utf-8"><title>ttl</title>%s</head>\n<body>\n%s\n</body></html>\n'
            % (head_extra, body))


def mhtml_bytes(html, cte):
    raw = html.encode("utf-8")
    if cte == "base64":
        payload = base64.encodebytes(raw)
    elif cte == "quoted-printable":
        payload = quopri.encodestring(raw)
    else:
        payload = raw
    b = b"----=_NextPart_000_0000"
    return (b"From: <Saved by verif>\r\nSubject: t\r\nMIME-Version: 1.0\r\nContent-Type: multipart/related;\r\n\ttype=\"text/html\";\r\n\tboundary=\""
            + b + b"\"\r\n\r\nThis is a multi-part message in MIME format.\r\n\r\n--" + b +
            b"\r\nContent-Type: text/html; charset=\"utf-8\"\r\nContent-Transfer-Encoding: " + cte.encode() +
            b"\r\nContent-Location: http://e/index.html\r\n\r\n" + payload + b"\r\n--" + b +
            b"\r\nContent-Type: image/gif\r\nContent-Transfer-Encoding: base64\r\nContent-Location: http://e/x.gif\r\n\r\nR0lGODlhAQABAAAAACw=\r\n--"
            + b + b"--\r\n")


def epub_bytes(chapters):
    """Minimal EPUB with one spine item per chapter document (a str is a one-chapter book)."""
    if isinstance(chapters, str):
        chapters = [chapters]
    ids = [f"c{i + 1}" for i in range(len(chapters))]
    bio = io.BytesIO()
    with zipfile.ZipFile(bio, "w") as z:
        z.writestr(zipfile.ZipInfo("mimetype"), "application/epub+zip")
        z.writestr("META-INF/container.xml",
                   '<?xml version="1.0"?><container version="1.0" xmlns="urn:oasis:names:tc:opendocument:xmlns:container">'
                   '<rootfiles><rootfile full-path="OEBPS/content.opf" media-type="application/oebps-package+xml"/></rootfiles></container>')
        z.writestr("OEBPS/content.opf",
                   '<?xml version="1.0"?><package xmlns="http://www.idpf.org/2007/opf" version="3.0" unique-identifier="id">'
                   '<metadata xmlns:dc="http://purl.org/dc/elements/1.1/"><dc:title>t</dc:title><dc:identifier id="id">x</dc:identifier>'
                   '<dc:language>en</dc:language></metadata><manifest>'
                   + "".join(f'<item id="{i}" href="{i}.xhtml" media-type="application/xhtml+xml"/>' for i in ids)
                   + '</manifest><spine>' + "".join(f'<itemref idref="{i}"/>' for i in ids) + '</spine></package>')
        for i, c in zip(ids, chapters):
            z.writestr(f"OEBPS/{i}.xhtml", c)
    return bio.getvalue()


class _StubMsOx:
    """Stands in for the third-party msg_parser.MsOxMessage (an oracle): delivers the given text as
    the message body so that the repository's own MSG body handling runs on it."""
    message_id = "<1@verif>"
    sent_date = "Mon, 01 Jan 2024 10:00:00 +0000"
    sender = "A <a@example.org>"
    to = "b@example.org"
    cc = None
    bcc = None
    reply_to = None
    subject = "s"

    def __init__(self, f):
        self.body = f.read().decode("utf-8")


def msg_body_plain(M, body):
    from unittest import mock
    with mock.patch.object(M, "MsOxMessage", _StubMsOx), mock.patch.object(M, "_extract_msg_attachments", lambda b: []):
        return list(M.read_msg_format_mail(io.BytesIO(body.encode("utf-8"))))[0].body_plain


def run_paths(html_bare, html_full, H, E, mods):
    """Run one generated body through every HTML-family path; returns {path: (text, extra, tables|None)}."""
    out = {}

    def html_result(r):
        extra = [h.get("text", "") for h in r.headings] + [l.get("text", "") + " " + l.get("href", "") for l in r.links]
        extra.append(str(r.metadata.title or ""))
        extra.append(" ".join(c for t in r.tables for row in t for c in row if c.startswith("hid")))
        return r.content, extra, None

    for nm, doc in (("read_html:bare", html_bare), ("read_html:full", html_full)):
        out[nm] = html_result(list(H.read_html(io.BytesIO(doc.encode("utf-8"))))[0])
    for cte in ("quoted-printable", "base64", "8bit"):
        out[f"read_mhtml:{cte}"] = html_result(list(mods["mhtml"].read_mhtml(io.BytesIO(mhtml_bytes(html_full, cte))))[0])
    out["msg:_html_to_text"] = (mods["msg"]._html_to_text(html_full), [], None)
    out["read_msg:body(bare)"] = (msg_body_plain(mods["msg"], html_bare), [], None)
    out["read_msg:body(full)"] = (msg_body_plain(mods["msg"], html_full), [], None)
    xhtml = '<?xml version="1.0" encoding="utf-8"?>\n' + html_full.replace("<html ", '<html xmlns="http://www.w3.org/1999/xhtml" ')
    res = list(E.read_epub(io.BytesIO(epub_bytes(xhtml))))[0]
    ch = res.chapters[0] if res.chapters else None
    if ch is None:
        out["read_epub:chapter"] = ("", [], [])
    else:
        out["read_epub:chapter"] = (ch.text, [], [c for t in ch.tables for row in t for c in row])
    return out


def text_level(ctx, H, E):
    import importlib
    mods = {"mhtml": importlib.import_module("sharepoint2text.parsing.extractors.mhtml_extractor"),
            "msg": importlib.import_module("sharepoint2text.parsing.extractors.mail.msg_email_extractor")}
    rng = ctx.rng
    fails = ctx.extra.setdefault("oracle_failures", {})

    def evaluate(body, doc, head_extra="", tail=None):
        """returns list of (path, reason); with `tail` the input ends right after the tail (truncated document)"""
        bad = []
        full = wrap_full(body, head_extra)
        if tail is not None:
            body = body + "\n" + tail
            full = full[:full.rindex("</body>")] + tail
        try:
            res = run_paths(body, full, H, E, mods)
        except Exception as ex:  # noqa
            return [("exception", repr(ex))]
        for path, (text, extra, tables) in res.items():
            why = check_tokens(text, extra, doc.visible, doc.cells, doc.hidden, tables)
            if why:
                bad.append((path, why))
                fails[path] = fails.get(path, 0) + 1
        return bad

    def family(path, bad):
        if path.startswith("read_epub"):
            return "epub"
        if (path.startswith("read_msg") or path.startswith("msg:")) and not any(p.startswith("read_html") for p, _ in bad):
            return "msg"
        return "html"

    # hostile raw-text content, embed forms, sibling order: fixed probes ----------------------------------
    raw_probes = [
        ("hostile-raw-comment-open", '<p>vis1z</p><script>var s="<!--";</script><p>vis2z</p><!-- hid1z --><p>vis3z</p>', 3),
        ("hostile-raw-comment-open", "<p>vis1z</p><style><!-- p{color:red} </style><p>vis2z</p><!-- hid1z --><p>vis3z</p>", 3),
        ("hostile-raw-comment-open", "<!-- hid1z --><p>vis1z</p><script>x = '-->'; y = '<!--';</script><p>vis2z</p><!-- hid2z -->", 2),
        ("hostile-raw-nested-name", "<p>vis1z</p><script>document.write('<script src=\"x.js\"><\\/script>');</script><p>vis2z</p>", 2),
        ("hostile-raw-nested-name", "<p>vis1z</p><style>a<b <style> p{color:hid1z}</style><p>vis2z</p>", 2),
        ("hostile-raw-lt", "<p>vis1z</p><script>if(a<b){c(hid1z)}</script><p>vis2z</p>", 2),
        ("hostile-raw-lt", "<p>vis1z</p><script>for(i=0;i<n;i++){} var hid1z=\"</b>\"; //]]></script><p>vis2z</p>", 2),
        ("hostile-raw-cdata", "<p>vis1z</p><script>//<![CDATA[\nvar hid1z = a<b && c]]>d;\n//]]></script><p>vis2z</p>", 2),
        ("hostile-raw-split-end", "<p>vis1z</p><script>document.write('<scr'+'ipt>hid1z</scr'+'ipt>');</script><p>vis2z</p>", 2),
        ("order-around-removed", "<p>vis1z <b>vis2z</b><script>var hid1z;</script> vis3z <i>vis4z</i></p>", 4),
        ("order-around-removed", "<p>vis1z <b>vis2z</b><noscript><p>hid1z</p></noscript> vis3z <i>vis4z</i> vis5z</p>", 5),
        ("order-around-removed", "<div>vis1z<br><embed src=x>vis2z<span>vis3z</span><object><param name=a>hid1z</object>vis4z</div>", 4),
    ]
    for r in ("noscript", "object", "iframe", "applet"):
        for form in ('<embed src="m.swf">', '<embed src="m.swf"/>', '<embed src="m.swf"></embed>'):
            raw_probes.append(("embed-child", f"<p>vis1z</p><{r}>{form}hid1z <p>hid2z</p></{r}><p>vis2z</p>", 2))
    for kind, body, nvis in raw_probes:
        d = Doc(rng)
        d.visible, d.hidden = [f"vis{i}z" for i in range(1, nvis + 1)], ["hid1z", "hid2z"]
        ctx.case(("text-probe", body), True, kind="text-probe")
        bad = evaluate(body, d)
        for path, why in bad:
            ctx.finding(f"{family(path, bad)}:{kind}", f"{path}: {why} for {body!r}", {"path": path, "html_body": body, "why": why,
                                                                                         "visible": d.visible, "hidden": d.hidden})
    # ... and the same order clause inside a table cell
    d = Doc(rng)
    d.visible, d.cells, d.hidden = ["vis5z"], ["vis1z", "vis2z", "vis3z", "vis4z"], ["hid1z"]
    body = "<table><tr><td>vis1z<b>vis2z</b><style>.hid1z{}</style>vis3z</td><td>vis4z</td></tr></table><p>vis5z</p>"
    ctx.case(("text-probe", body), True, kind="text-probe")
    bad = evaluate(body, d)
    for path, why in bad:
        ctx.finding(f"{family(path, bad)}:order-around-removed", f"{path}: {why} for {body!r}", {"path": path, "html_body": body, "why": why,
                    "visible": d.visible, "cells": d.cells, "hidden": d.hidden})

    # the document ends inside an unterminated construct: every tail form ---------------------------------
    for kind, tails in EOF_TAILS.items():
        for tl in tails:
            d = Doc(rng)
            d.visible, d.hidden = ["vis1z", "vis2z"], ["hid1z", "hid2z"]
            body = "<p>vis1z</p><script>var hid2z = 1;</script><p>vis2z</p>"
            ctx.case(("text-eof", body, tl), True, kind="text-eof")
            bad = evaluate(body, d, tail=tl % "hid1z")
            for path, why in bad:
                ctx.finding(f"{family(path, bad)}:eof-{kind}", f"{path}: {why} for a document ending in {tl % 'hid1z'!r}",
                            {"path": path, "html_body": body + "\n" + tl % "hid1z", "truncated": True, "why": why,
                             "visible": d.visible, "hidden": d.hidden})
    # self-closed (XML empty-element) forms of the non-void removable elements, also nested in their own kind
    for r in [x for x in STATEMENT_REMOVED if x not in STD_VOID]:
        for body in (f'<p>vis1z</p><{r} src="x.js"/><p>vis2z</p>', f"<p>vis1z</p><{r}/><p>vis2z</p>",
                     f'<p>vis1z <{r} data="a"/> vis2z</p>',
                     *([] if r in ("script", "style") else [f'<p>vis1z</p><{r} data="a.svg"><{r} data="a.png"/>hid1z</{r}><p>vis2z</p>'])):
            d = Doc(rng)
            d.visible, d.hidden = ["vis1z", "vis2z"], ["hid1z"]
            ctx.case(("text-probe", body), True, kind="text-probe")
            bad = evaluate(body, d)
            for path, why in bad:
                ctx.finding(f"{family(path, bad)}:selfclosed-removable", f"{path}: {why} for {body!r}",
                            {"path": path, "html_body": body, "why": why, "visible": d.visible, "hidden": d.hidden})

    # fixed probes: every removable tag x every single kind of content -------------------------------
    probes = {
        "void-child": '<img src="x.png">', "unclosed-child": "<p>hid1z", "stray-end-tag": "</b>hid1z",
        "nested-removable": "<script>var a='hid1z';</script>", "comment": "<!-- hid1z -->", "text": "hid1z",
        "selfclosed-child": "<br/>", "element": "<p>hid1z</p>", "cdata": "<![CDATA[ hid1z ]]>",
    }
    for r in STATEMENT_REMOVED:
        forms = ([("void-removable", f'<{r} src="hid1z">'), ("void-removable-selfclosed", f'<{r} src="x"/>')] if r in STD_VOID
                 else [("text", f"<{r}>hid1z</{r}>")] if r in ("script", "style")
                 else [(k, f"<{r}>{v}</{r}>") for k, v in probes.items()])
        for kind, markup in forms:
            d = Doc(rng)
            d.visible, d.hidden = ["vis1z", "vis2z"], ["hid1z"]
            body = f"<p>vis1z</p>{markup}<p>vis2z</p>"
            ctx.case(("text-probe", body), True, kind="text-probe")
            for path, why in evaluate(body, d):
                fam = "epub" if path.startswith("read_epub") else "html"
                key = f"{fam}:{kind}" if kind.startswith("void-removable") else f"{fam}:removed-{kind}"
                ctx.finding(key, f"{path}: {why} for {body!r}", {"path": path, "html_body": body, "why": why,
                                                                 "visible": d.visible, "hidden": d.hidden})
    # comments at visible positions
    d = Doc(rng)
    d.visible, d.hidden = ["vis1z", "vis2z", "vis3z"], ["hid1z", "hid2z", "hid3z"]
    body = "<p>vis1z</p><!-- hid1z --><p>vis2z <!--hid2z--> vis3z</p><!-- <p>hid3z</p> -->"
    ctx.case(("text-probe", body), True, kind="text-probe")
    for path, why in evaluate(body, d):
        fam = "epub" if path.startswith("read_epub") else "html"
        ctx.finding(f"{fam}:comment-visible", f"{path}: {why} for {body!r}", {"path": path, "html_body": body, "why": why,
                                                                              "visible": d.visible, "hidden": d.hidden})
    # HTML mail bodies that are fragments whose tags all carry attributes must still be treated as HTML
    for body in ('<div class="a"><style type="text/css">p {color: hid1z}</style><p class="x">vis1z</p></div>',
                 '<table border="0"><tr valign="top"><td width="1">vis1z<script type="text/javascript">var hid1z;</script></td></tr></table>',
                 '<span style="x">vis1z</span><br clear="all"><noscript class="n"><img src=x alt="hid1z"></noscript>'):
        ctx.case(("msg-fragment", body), True, kind="text-probe")
        try:
            got = msg_body_plain(mods["msg"], body)
        except Exception as ex:  # noqa
            got = "hid:" + repr(ex)
        if "hid1z" in got or "vis1z" not in got:
            fails["read_msg:fragment"] = fails.get("read_msg:fragment", 0) + 1
            ctx.finding("msg:html-fragment-undetected", f"read_msg body_plain keeps removed markup for the HTML body {body!r}: {got[:120]!r}",
                        {"path": "read_msg:body", "html_body": body, "body_plain": got})
    # head-level script/style
    d = Doc(rng)
    d.visible, d.hidden = ["vis1z"], ["hid1z", "hid2z"]
    for path, why in evaluate("<p>vis1z</p>", d, head_extra="<style>p{color:hid1z}</style><script>var hid2z;</script>"):
        ctx.finding("html:head-removable", f"{path}: {why} for script/style in <head>", {"path": path, "why": why})

    # generated documents ------------------------------------------------------------------------
    ndocs = ctx.n(1500, 8000)
    for i in range(ndocs):
        d = Doc(rng)
        body = d.body(rng.randint(1, 5))
        nontriv = any(f.startswith("rem:") for f in d.features)
        ctx.case(("doc", body), nontriv, kind="text-doc")
        bad = evaluate(body, d)
        if not bad and rng.random() < 0.5:
            # the same document with its input truncated inside an unterminated construct
            ek = rng.choice(sorted(EOF_TAILS))
            tl = rng.choice(EOF_TAILS[ek]) % d.hid()
            ctx.case(("doc-eof", body, tl), True, kind="text-doc-eof")
            bad_t = evaluate(body, d, tail=tl)
            for path, why in bad_t:
                ctx.finding(f"{family(path, bad_t)}:eof-{ek}", f"{path}: {why} for a generated document ending in {tl!r}",
                            {"path": path, "html_body": body + "\n" + tl, "truncated": True, "why": why,
                             "visible": d.visible, "cells": d.cells, "hidden": d.hidden})
        for path, why in bad:
            fam = family(path, bad)
            # classify by the single-content probes of the same family that fail too
            kind = "other"
            for k in ("comment-visible", "void-removable", "void-child", "unclosed-child", "stray-end-tag", "nested-removable",
                      "selfclosed-child", "comment", "cdata", "element", "text"):
                if k in d.features:
                    d2 = Doc(rng)
                    d2.visible, d2.hidden = ["vis1z", "vis2z"], ["hid1z"]
                    mk = ('<embed src="hid1z">' if k == "void-removable" else "<!-- hid1z -->" if k == "comment-visible"
                          else f"<noscript>{probes[k]}</noscript>")
                    if any((p.startswith("read_epub") == (fam == "epub")) for p, _ in evaluate(f"<p>vis1z</p>{mk}<p>vis2z</p>", d2)):
                        kind = k
                        break
            if kind == "other":
                kind = next((k for k in ("selfclosed-removable", "hostile-raw", "embed-child", "order") if k in d.features), "other")
            key = f"{fam}:{kind}" if kind in ("void-removable", "comment-visible") else f"{fam}:removed-{kind}"
            ctx.finding(key, f"{path}: {why} for generated document", {"path": path, "html_body": body, "why": why,
                                                                         "visible": d.visible, "cells": d.cells, "hidden": d.hidden})

    # long prefixes: the first markup comes only after L characters of comment / white space / plain text (detection windows,
    # sniffing windows, buffer sizes must not change what is removed)
    pads = {"comment": lambda L: "<!--[if gte mso 9]><xml>" + "x" * max(0, L - 40) + "</xml><![endif]-->",
            "whitespace": lambda L: " \n" * (L // 2), "plain-text": lambda L: "lorem ipsum " * (L // 12)}
    for pk, mkpad in pads.items():
        reported = set()
        for L in (100, 1000, 4000, 4096, 4097, 5000, 8192, 8200, 20000, 70000):
            dd = Doc(rng)
            bodyp = mkpad(L) + f'<div class="a"><style type="text/css">p {{color: {dd.hid()}}}</style><p class="x">{dd.vis()}</p>' \
                + dd.any_removable() + f"<p>{dd.vis()}</p><!-- {dd.hid()} --></div>"
            ctx.case(("text-padded", pk, L), True, kind=f"text-padded-{pk}")
            bad = evaluate(bodyp, dd)
            for path, why in bad:
                fam = family(path, bad)
                if fam in reported:
                    continue
                reported.add(fam)
                ctx.finding(f"{fam}:after-long-prefix-{pk}", f"{path}: {why} for markup that follows {L} characters of {pk}",
                            {"path": path, "html_body": bodyp, "why": why, "visible": dd.visible, "hidden": dd.hidden, "prefix": L})
    # documents at scale: d open (unclosed / properly nested) elements or d siblings, then a removable element -------------
    shapes = {
        "unclosed": lambda d, payload: "<p>vis1z</p>" + "".join(f"<{('p', 'li', 'font')[i % 3]}>lvl\n" for i in range(d)) + f"vis2z {payload} vis3z",
        "nested": lambda d, payload: ("<p>vis1z</p>" + "".join(f"<{('div', 'blockquote')[i % 2]}>lvl " for i in range(d)) + f"<p>vis2z</p>{payload}<p>vis3z</p>"
                                      + "".join(f"</{('div', 'blockquote')[(d - 1 - i) % 2]}>" for i in range(d)) + "<p>vis4z</p>"),
        "wide": lambda d, payload: "<p>vis1z</p>" + "<p>w</p>" * d + f"<p>vis2z</p>{payload}<p>vis3z</p>",
    }
    for shape, mk in shapes.items():
        reported = set()
        for d in SCALES:
            dd = Doc(rng)
            payload = dd.removable(rng.choice([x for x in STATEMENT_REMOVED if x != "embed"]))
            body = mk(d, payload)
            dd.visible = ["vis1z", "vis2z", "vis3z"] + (["vis4z"] if shape == "nested" else [])
            dd.cells = []
            ctx.case(("text-scale", shape, d, payload), True, kind=f"text-scale-{shape}")
            bad = evaluate(body, dd)
            for path, why in bad:
                fam = family(path, bad)
                if fam in reported:
                    continue
                reported.add(fam)
                ctx.finding(f"{fam}:removed-at-scale-{shape}", f"{path}: {why} for a removable element after {d} {shape} elements ({payload[:60]!r}...)",
                            {"path": path, "html_body": body, "why": why, "visible": dd.visible, "hidden": dd.hidden, "scale": d})


# ----------------------------------------------------------------------------- charset decoding in front of the parser
CHARSET_KEY = "html:charset-sniffed-from-removed-markup"


def charset_docs(rng, n_random):
    """(kind, key, bytes, visible tokens, hidden tokens, marker) - documents whose BYTES matter:
    truthful encodings (BOMs, <meta charset>, http-equiv) and charset declarations that sit inside removed markup."""
    out = []
    sample = {"utf-8": "\u00e9\u65e5", "utf-16-le": "\u00e9\u65e5", "utf-16-be": "\u00e9\u65e5", "latin-1": "\u00e9", "iso-8859-1": "\u00e9",
              "cp1252": "\u00e9\u20ac", "shift_jis": "\u65e5\u672c", "koi8-r": "\u0416", "utf-32": "\u00e9"}

    def body(marker):
        return (f"<p>vis1z</p><script>var hid1z = '<p>';</script><p>vis2z {marker}</p><noscript><img src=x>hid2z</noscript>"
                f"<!-- hid3z --><p>vis3z</p>")
    # A. truthful
    for enc, decl in (("utf-8", None), ("utf-8", "bom"), ("utf-16-le", "bom"), ("utf-16-be", "bom"), ("latin-1", "meta"), ("cp1252", "meta"),
                      ("shift_jis", "meta"), ("utf-8", "meta"), ("koi8-r", "meta"), ("iso-8859-1", "http-equiv"), ("utf-8", "META-upper"),
                      ("latin-1", "meta-late"), ("cp1252", "meta-unquoted")):
        marker = "uni1z" + sample[enc]
        head = {None: "", "bom": "", "meta": f'<meta charset="{enc}">', "meta-unquoted": f"<meta charset={enc}>",
                "http-equiv": f'<meta http-equiv="Content-Type" content="text/html; charset={enc}">',
                "META-upper": f"<META CHARSET='{enc.upper()}'>", "meta-late": "<title>" + "t" * 3000 + f'</title><meta name="x" content="y" charset="{enc}">'}[decl]
        doc = f"<html><head>{head}<title>ttl</title></head><body>{body(marker)}</body></html>"
        raw = doc.encode(enc)
        if decl == "bom":
            raw = {"utf-8": b"\xef\xbb\xbf", "utf-16-le": b"\xff\xfe", "utf-16-be": b"\xfe\xff"}[enc] + raw
        out.append(("truthful", f"html:charset-truthful:{enc}:{decl}", raw, ["vis1z", "vis2z", "vis3z"], ["hid1z", "hid2z", "hid3z"], marker))
        if decl in ("meta", "http-equiv", "meta-unquoted"):
            # markup that may legitimately stand in front of the declaration: void elements (also the removable void one),
            # closed removed elements, comments - the declaration after them still decides
            fronts = ['<embed src="bg.mid" autostart="true">', "<img src=x>", "<br>", '<link rel="x" href="y">', "<embed src=x/>",
                      "<script>var a;</script>", "<!-- c -->", "<noscript><img src=p.gif></noscript>", '<object data="x"></object>',
                      '<base href="http://e/">']
            for fr in fronts:
                doc2 = doc.replace("<head>", "<head>" + fr, 1) if rng.random() < 0.5 else fr + doc
                out.append(("truthful-after-markup", f"html:charset-truthful-after-markup:{fr.split()[0].strip('<>/')}", doc2.encode(enc),
                            ["vis1z", "vis2z", "vis3z"], ["hid1z", "hid2z", "hid3z"], marker))
    # B. a declaration inside removed markup must decide nothing
    containers = {
        "comment": "<!-- {m} -->", "comment-multi": "<!--\n old head:\n {m}\n-->", "script-string": "<script>var h = '{m}';</script>",
        "style-comment": "<style>/* {m} */ p {{}}</style>", "noscript": "<noscript>{m}</noscript>", "object": "<object data=x>{m}</object>",
        "iframe": '<iframe src="x">{m}</iframe>', "open-comment-at-eof": None,
    }
    charsets = ["utf-16", "utf-16le", "utf-16-be", "utf-32", "utf-7", "cp037", "cp500", "latin-1", "cp1252", "shift_jis", "utf-8", "koi8-r",
                "x-no-such", "UTF-16", "Utf-7"]
    metas = ['<meta charset="{c}">', "<meta charset={c}>", '<meta http-equiv="Content-Type" content="text/html; charset={c}">', "<META CHARSET='{c}'/>"]
    marker = "uni1z\u00e9\u65e5"
    vis_body = (f"<p>vis1z</p><p>vis2z +ADw-script+AD4- +ADw-!-- vis3z</p><script>var hid1z;</script><p>vis4z {marker}</p>"
                f"<noscript><img src=x>hid2z</noscript><p>vis5z</p>")
    combos = [(k, c, m) for k in containers if containers[k] for c in charsets for m in metas[:1]]
    combos += [(rng.choice([k for k in containers if containers[k]]), rng.choice(charsets), rng.choice(metas)) for _ in range(n_random)]
    for k, c, m in combos:
        decl = containers[k].format(m=m.format(c=c))
        where = rng.choice(["head", "bare-start", "body-start"])
        if where == "head":
            doc = f"<html><head><title>ttl</title>{decl}</head><body>{vis_body}</body></html>"
        elif where == "bare-start":
            doc = decl + vis_body
        else:
            doc = f"<html><body>{decl}{vis_body}</body></html>"
        out.append((f"in-{k}:{c}", CHARSET_KEY, doc.encode("utf-8"), ["vis1z", "vis2z", "vis3z", "vis4z", "vis5z"], ["hid1z", "hid2z"], marker))
    # beyond the sniffing window a declaration has no effect at all (sanity)
    doc = "<p>vis1z</p>" + "<!-- pad -->" * 800 + '<!-- <meta charset="utf-16"> -->' + vis_body.replace("vis1z", "vis0z")
    out.append(("beyond-window", "html:charset-beyond-window", doc.encode("utf-8"), ["vis1z", "vis0z", "vis2z", "vis3z", "vis4z", "vis5z"], ["hid1z", "hid2z"], marker))
    return out


def charset_check(H, mh, E, raw, visible, hidden, marker):
    """returns [(path, why)] for one byte document through the byte-consuming paths"""
    bad = []
    outs = {"read_html": lambda: list(H.read_html(io.BytesIO(raw)))[0].content,
            "read_mhtml:base64": lambda: list(mh.read_mhtml(io.BytesIO(mhtml_raw(raw))))[0].content}
    for path, f in outs.items():
        try:
            text = f()
        except Exception as ex:  # noqa
            bad.append((path, "raised " + repr(ex)[:80]))
            continue
        found = TOK.findall(text)
        if [x for x in found if x.startswith("hid")]:
            bad.append((path, f"removed content leaked: {[x for x in found if x.startswith('hid')][:3]}"))
        elif [x for x in found if x.startswith("vis")] != visible:
            bad.append((path, f"visible text lost or reordered: got {[x for x in found if x.startswith('vis')]} of {visible}"))
        elif marker not in text:
            bad.append((path, f"visible non-ASCII text {marker!r} mis-decoded"))
    return bad


def mhtml_raw(raw):
    b = b"----=_NextPart_000_0001"
    return (b"From: <Saved by verif>\r\nMIME-Version: 1.0\r\nContent-Type: multipart/related;\r\n\tboundary=\"" + b +
            b"\"\r\n\r\n--" + b + b"\r\nContent-Type: text/html\r\nContent-Transfer-Encoding: base64\r\n"
            b"Content-Location: http://e/index.html\r\n\r\n" + base64.encodebytes(raw) + b"\r\n--" + b + b"--\r\n")


def charset_level(ctx, H, E):
    import importlib
    mh = importlib.import_module("sharepoint2text.parsing.extractors.mhtml_extractor")
    fails = ctx.extra.setdefault("oracle_failures", {})
    for kind, key, raw, visible, hidden, marker in charset_docs(ctx.rng, ctx.n(60, 600)):
        ctx.case(("charset", kind, raw), True, kind="charset:" + kind.split(":")[0])
        bad = charset_check(H, mh, E, raw, visible, hidden, marker)
        for path, why in bad:
            fails["charset:" + path] = fails.get("charset:" + path, 0) + 1
            ctx.finding(key, f"{path}: {why} for a {kind} document {raw[:90]!r}...",
                        {"path": path, "doc_bytes": raw, "doc_b64": base64.b64encode(raw).decode(), "visible": visible, "hidden": hidden,
                         "marker": marker, "why": why})
        # the same text as an EPUB chapter / MSG body is decoded elsewhere (UTF-8 / already str): the declaration is irrelevant there
        if kind.startswith("in-"):
            doc = raw.decode("utf-8")
            try:
                ch = list(E.read_epub(io.BytesIO(epub_bytes(doc))))[0].chapters[0].text
            except Exception as ex:  # noqa
                ch = "hid:" + repr(ex)
            f = TOK.findall(ch)
            if [x for x in f if x.startswith("hid")] or [x for x in f if x.startswith("vis")] != visible or marker not in ch:
                ctx.finding("epub:charset-declaration-in-removed-markup", f"read_epub:chapter: a {kind} declaration changes the chapter text",
                            {"path": "read_epub:chapter", "html_body": doc, "visible": visible, "hidden": hidden})


# ----------------------------------------------------------------------------- sniffing model correspondence
class _SpyBytes(bytes):
    log = None

    def decode(self, encoding="utf-8", errors="strict"):
        if _SpyBytes.log is not None:
            _SpyBytes.log.append(encoding)
        return bytes(self).decode(encoding, errors)


class _SpyIO(io.BytesIO):
    def read(self, *a):
        return _SpyBytes(super().read(*a))


def observed_encoding(H, raw):
    """the encoding name read_html hands to bytes.decode for this input (first attempt)"""
    _SpyBytes.log = []
    try:
        list(H.read_html(_SpyIO(raw)))
        log = _SpyBytes.log
    finally:
        _SpyBytes.log = None
    if log:
        return log[0]
    return "utf-8" if raw.startswith(b"\xef\xbb\xbf") else None     # content[3:] is a plain bytes object


def sniff_correspondence(ctx, H):
    rng = ctx.rng
    pieces = [b"<meta", b"<META", b"<MeTa ", b"<meta\n", b" charset=", b"charset=", b"CHARSET=", b" http-equiv=\"Content-Type\" content=\"text/html; charset=",
              b"\"", b"'", b">", b"/>", b" ", b"\t", b"utf-8", b"UTF-16", b"latin-1", b"cp037", b"utf-7", b"UTF_7", b"utf7", b"x", b"<!--", b"-->", b"--",
              b"<script>", b"</script>", b"<SCRIPT ", b"</Script >", b"</script\n>", b"<scripts>", b"<script", b"<style>", b"</style>", b"<noscript>",
              b"</noscript>", b"<iframe ", b"</iframe>", b"<object>", b"</object x>", b"<applet>", b"</applet>", b"</", b"<",
              b"<p>t</p>", b"=", b"charset", b"<metadata>", b"<m", b"\xe9", b"\xff", b";", b" name=\"a\"", b"_", b"<!-", b"<!--->", b"\n"]
    # every tag name the tables know (void ones too) may stand in front of the declaration
    for nm in sorted(set(H.REMOVE_TAGS) | set(H._VOID_TAGS) | {"title", "head", "html", "body", "div"}):
        pieces += [b"<" + nm.encode() + b">", b"<" + nm.encode() + b" src=x>", b"</" + nm.encode() + b">"]
    heads = [b"", b"<meta charset=utf-8>", b"<metacharset=utf-8>", b"<meta charset=>", b"<meta charset=\"\">", b"<meta charset= x>",
             b"<meta charset=a charset=b>", b"<meta charset=a charset= >", b"<meta a>charset=x", b"<meta <meta charset='k'>",
             b"<meta charset=\"a'b>", b"\xef\xbb\xbf<meta charset=latin-1>", b"\xff\xfe<\x00", b"\xfe\xff\x00<", b"\xef\xbb", b"<meta charset=caf\xe9>",
             b"<!-- <meta charset=\"utf-16\"> --><p>x</p>", b"<script>var h='<meta charset=cp037>';</script>", b"<meta charset=utf-16>",
             b"<meta charset=utf-7>", b"<meta charset=UTF_7>", b"<meta charset=cp037>", b"<meta \xe9 charset=latin-1>", b"<meta charset=latin-1>",
             b"<!--><meta charset=latin-1>-->", b"<!-- x --<meta charset=latin-1>", b"<scripty><meta charset=latin-1>", b"<script/><meta charset=latin-1>",
             b"<script><meta charset=latin-1></scripty></script ><meta charset=cp1252>", b"<object><meta charset=latin-1></OBJECT\t\n>x<meta charset=koi8-r>",
             b"<noscript><script></noscript><meta charset=latin-1></script><meta charset=cp1252>", b"<style", b"<!--",
             b"x" * 8180 + b"<meta charset=latin-1>", b"x" * 8192 + b"<meta charset=latin-1>", b"x" * 8170 + b"<meta charset=latin-1>",
             b"<!--" + b"x" * 8190 + b"--><meta charset=latin-1>", b"x" * 8186 + b"<script><meta charset=latin-1>"]
    if ctx.tier == "quick":
        heads = [h for h in heads if len(h) < 4000] + [h for h in heads if len(h) >= 4000][1:3]
    for _ in range(ctx.n(200, 5000)):
        heads.append(b"".join(rng.choice(pieces) for _ in range(rng.randint(1, 10))))
    for nm in sorted(set(H.REMOVE_TAGS) | set(H._VOID_TAGS)):
        heads.append(b"<" + nm.encode() + b" src=x><meta charset=latin-1>")
        heads.append(b"<html><head><" + nm.encode() + b"><meta http-equiv=\"Content-Type\" content=\"text/html; charset=koi8-r\"></head>")
    skip_re = getattr(H, "_RE_SNIFF_SKIP_BYTES", None)
    import re as _re
    want_skip = rb"<!--.*?(?:-->|\Z)|<(script|style|noscript|iframe|object|applet)\b.*?(?:</\1\s*>|\Z)"
    want_meta = rb'<meta[^>]+charset=["\']?([^"\'\s>]+)'
    ctx.obligation("inventory:_RE_SNIFF_SKIP_BYTES and _RE_CHARSET_ATTR_BYTES are the regexes modelled in C17/Sniff.v (pattern text and flags)",
                   skip_re is not None and skip_re.pattern == want_skip and skip_re.flags == (_re.IGNORECASE | _re.DOTALL)
                   and H._RE_CHARSET_ATTR_BYTES.pattern == want_meta and H._RE_CHARSET_ATTR_BYTES.flags == _re.IGNORECASE,
                   f"skip: {getattr(skip_re, 'pattern', None)!r} flags {getattr(skip_re, 'flags', None)}; meta: {H._RE_CHARSET_ATTR_BYTES.pattern!r}")
    cases, info = [], []
    bl = lambda b: "[" + ";".join(str(x) for x in b) + "]%N"
    for raw in heads:
        head = skip_re.sub(b"", raw[:8192]) if skip_re is not None else raw[:8192]
        m = H._RE_CHARSET_ATTR_BYTES.search(head)
        compat = False
        if m is not None:
            declared = m.group(1).decode("ascii", errors="ignore")
            try:
                compat = m.group(0).decode(declared) == m.group(0).decode("ascii")
            except (UnicodeDecodeError, LookupError):
                compat = False
            except Exception:  # noqa  (e.g. NUL in the name: another property's concern)
                continue
        try:
            enc = observed_encoding(H, raw)
        except Exception:  # noqa
            continue
        if enc is None:
            continue
        grp = "None" if m is None else f"(Some ({bl(m.group(0))}, {bl(m.group(1))}))"
        cases.append(f"({bl(raw)}, {bl(head)}, {grp}, {coq_bool(compat)}, {coq_str(enc)})")
        info.append(raw)
        ctx.case(("sniff", raw), b"<meta" in raw.lower(), kind="sniff")
    pre = "From S2T Require Import Lib.PyStr C17.Sniff.\n"
    ok, failing, log = coq_eval_shards(ctx, "sniff", pre, "sniff_case", cases, shard=250,
                                       ty="list N * list N * option (list N * list N) * bool * list N")
    ctx.traces += len(cases)
    ctx.disagreements += len(failing)
    ctx.obligation("correspondence:Sniff.strip == _RE_SNIFF_SKIP_BYTES.sub, Sniff.search2 == _RE_CHARSET_ATTR_BYTES.search (groups 0, 1), "
                   "Sniff.choose == the encoding read_html decodes with", ok and not failing,
                   (f"{len(failing)} disagreements of {len(cases)}, first: {info[failing[0]][:160] if failing else b''!r} " + log)[:1200])


# ----------------------------------------------------------------------------- environment independence
def environment_level(ctx, H, E):
    """The extraction result of HTML-family inputs must not depend on DEBUG logging, the thread, the time zone or the cwd."""
    import importlib
    import common
    mods = {"mhtml": importlib.import_module("sharepoint2text.parsing.extractors.mhtml_extractor"),
            "msg": importlib.import_module("sharepoint2text.parsing.extractors.mail.msg_email_extractor")}
    rng = ctx.rng
    cases = []
    for _ in range(ctx.n(90, 300)):
        d = Doc(rng)
        body = d.body(rng.randint(1, 4))
        if rng.random() < 0.3:
            body += "\n" + rng.choice(EOF_TAILS[rng.choice(sorted(EOF_TAILS))]) % d.hid()
        cases.append(("doc", body))
    for shape in ("unclosed", "nested"):
        for dpt in (40, 300):
            pre_, clo = ("".join("<p>l\n" for _ in range(dpt)), "") if shape == "unclosed" else ("<div>" * dpt, "</div>" * dpt)
            cases.append(("doc", f"<p>vis1z</p>{pre_}<script>var hid1z;</script><p>vis2z</p>{clo}"))
    for _ in range(ctx.n(15, 60)):
        chs = []
        for k in range(1, rng.randint(2, 4) + 1):
            d = Doc(rng)
            hz = rng.choice(sorted(HAZARDS))
            chs.append(chapter_doc(d.body(rng.randint(0, 2)), k, rng.choice(HAZARDS[hz]) if rng.random() < 0.6 else None))
        cases.append(("book", tuple(chs)))
    for kind, key, raw, visible, hidden, marker in charset_docs(rng, 10)[:60:2]:
        cases.append(("bytes", raw))

    def fn(case):
        kind, x = case
        if kind == "doc":
            res = run_paths(x, wrap_full(x), H, E, mods)
            return tuple((k, v[0], tuple(v[1]), None if v[2] is None else tuple(v[2])) for k, v in sorted(res.items()))
        if kind == "book":
            return tuple(chapter_view(c) for c in list(E.read_epub(io.BytesIO(epub_bytes(list(x)))))[0].chapters)
        r = list(H.read_html(io.BytesIO(x)))[0]
        m = list(mods["mhtml"].read_mhtml(io.BytesIO(mhtml_raw(x))))[0]
        return (r.content, repr(r.tables), repr(r.headings), repr(r.links), m.content)
    common.env_sweep(ctx, "html-family-extraction", fn, cases)


# ----------------------------------------------------------------------------- chapters are independent
HAZARDS = {
    # how a chapter may END: (kind, markup appended to the body; the document is then truncated)
    "unclosed-removable": ['<iframe src="about:blank">hid9z', "<noscript><p>hid9z", '<object data="m.swf"><param name="a" value="b">hid9z',
                           "<applet code=x>hid9z", "<p>x<noscript>hid9z</p>"],
    "truncated-script": ["<script>var a = 'hid9z';", "<style>p { color: hid9z }", "<script><!-- hid9z"],
    "unclosed-block": ["<div><p>open <b>bold", "<ul><li>item", "<blockquote><h2>head"],
    "open-table": ["<table><tr><td>cell", "<table><tr><td>a</td><td>b", "<table><tr><th>h</th></tr><tr>"],
    "open-title": ["<title>dangling", "<p>x</p><title>"],
    "unclosed-comment": ["<!-- hid9z", "<![CDATA[ hid9z", '<p class="x'],
}


def chapter_doc(body, k, tail=None):
    head = ('<?xml version="1.0" encoding="utf-8"?>\n<html xmlns="http://www.w3.org/1999/xhtml" lang="en"><head>'
            f'<meta charset="utf-8"/><title>ttl{k}z</title></head>\n<body>\n{body}\n')
    return head + tail if tail is not None else head + "</body></html>\n"


def start_recording(cls, obs, log):
    """Subclass that records, at every feed() entry, the handler state (and the tokenizer's pending
    input) BEFORE the chapter is parsed."""
    class StartRec(cls):
        def feed(self, data):
            try:
                o = obs(self)
            except Exception as ex:  # noqa
                o = ("unobservable", repr(ex))
            log.append((o, getattr(self, "rawdata", None), getattr(self, "cdata_elem", None)))
            return super().feed(data)
    StartRec.__name__ = cls.__name__
    return StartRec


def chapter_view(ch):
    return (ch.text, ch.title, tuple(tuple(tuple(r) for r in tb) for tb in ch.tables))


def book_failures(E, chapters):
    """Per-chapter independence on the implementation: chapter k of the book must equal the only
    chapter of the one-chapter book made of the same document.  Returns [(k, field, in_book, alone)]."""
    book = list(E.read_epub(io.BytesIO(epub_bytes(chapters))))[0].chapters
    bad = []
    if len(book) != len(chapters):
        return [(-1, "chapter-count", len(book), len(chapters))]
    for k, doc in enumerate(chapters):
        alone = list(E.read_epub(io.BytesIO(epub_bytes(doc))))[0].chapters
        if len(alone) != 1:
            bad.append((k, "chapter-count", 1, len(alone)))
            continue
        a, b = chapter_view(book[k]), chapter_view(alone[0])
        for name, x, y in zip(("text", "title", "tables"), a, b):
            if x != y:
                bad.append((k, name, x, y))
    return bad


def chapters_independent(ctx, H, E):
    from unittest import mock
    import importlib
    from html.parser import HTMLParser
    rng = ctx.rng
    fails = ctx.extra.setdefault("oracle_failures", {})
    M = importlib.import_module("sharepoint2text.parsing.extractors.mail.msg_email_extractor")

    # ---- the model knows every attribute of the handler objects (fail closed on new state)
    base = set(vars(HTMLParser()))
    want_e = {"text_parts", "skip_depth", "_skip_tag", "in_block", "tables", "_current_table", "_current_row", "_current_cell",
              "_in_table", "_in_cell", "_title", "_in_title"}
    want_h = {"root", "stack", "skip_depth", "_skip_tag", "last_closed"}
    got_e = set(vars(E._XhtmlTextExtractor())) - base
    got_h = set(vars(H._HtmlTreeBuilder())) - base
    ctx.obligation("model-covers-state:_XhtmlTextExtractor instance attributes == modelled fields", got_e == want_e,
                   f"unmodelled: {sorted(got_e - want_e)} missing: {sorted(want_e - got_e)}")
    ctx.obligation("model-covers-state:_HtmlTreeBuilder instance attributes == modelled fields", got_h == want_h,
                   f"unmodelled: {sorted(got_h - want_h)} missing: {sorted(want_h - got_h)}")

    # ---- generated books
    books = []   # (chapters, hazard kinds per chapter, Doc per chapter)
    fixed = [("unclosed-removable", '<iframe src="about:blank">hid9z'), ("unclosed-removable", "<noscript><p>hid9z"),
             ("truncated-script", "<script>var a = 'hid9z';"), ("open-table", "<table><tr><td>cell"), ("open-title", "<title>dangling"),
             ("unclosed-block", "<div><p>open <b>bold"), ("unclosed-comment", "<!-- hid9z")]
    for kind, tail in fixed:
        d1, d2 = Doc(rng), Doc(rng)
        b1 = "<p>%s</p>" % d1.vis()
        b2 = "<p>%s</p><table><tr><td>%s</td><td>%s</td></tr></table><p>%s</p>" % (d2.vis(), d2.vis(True), d2.vis(True), d2.vis())
        books.append(([chapter_doc(b1, 1, tail), chapter_doc(b2, 2)], [kind, None], [d1, d2]))
    for _ in range(ctx.n(150, 1500)):
        n = rng.randint(2, 4)
        chs, kinds, docs = [], [], []
        for k in range(1, n + 1):
            d = Doc(rng)
            body = d.body(rng.randint(0, 3))
            if k < n and rng.random() < 0.8:
                kind = rng.choice(sorted(HAZARDS))
                chs.append(chapter_doc(body, k, rng.choice(HAZARDS[kind])))
            else:
                kind = None
                chs.append(chapter_doc(body, k))
            kinds.append(kind)
            docs.append(d)
        books.append((chs, kinds, docs))

    log = []
    Rec = start_recording(E._XhtmlTextExtractor, epub_obs, log)
    fed = 0
    for chs, kinds, docs in books:
        hazard = next((k for k in kinds if k), None)
        ctx.case(("book", tuple(chs)), hazard is not None, kind=f"epub-book:{len(chs)}ch:{hazard or 'clean'}")
        try:
            with mock.patch.object(E, "_XhtmlTextExtractor", Rec):
                res = list(E.read_epub(io.BytesIO(epub_bytes(chs))))[0]
            fed += len(chs)
            bad = book_failures(E, chs)
        except Exception as ex:  # noqa
            res, bad = None, [(-1, "exception", repr(ex), "")]
        # absolute oracle for well-formed chapters that FOLLOW a hazard chapter
        if res is not None and len(res.chapters) == len(chs):
            for k in range(1, len(chs)):
                if kinds[k] is None and any(kinds[:k]):
                    ch, d = res.chapters[k], docs[k]
                    why = check_tokens(ch.text, [], d.visible, d.cells, d.hidden, [c for tb in ch.tables for row in tb for c in row])
                    if not why and ch.title != f"ttl{k + 1}z":
                        why = f"title lost: {ch.title!r}"
                    if why and not any(b[0] == k for b in bad):
                        # wrong on its own as well (chapter k equals its one-chapter extraction): not a carry-over
                        fails["read_epub:book-chapter"] = fails.get("read_epub:book-chapter", 0) + 1
                        ctx.finding("epub:book-chapter-content", f"read_epub: chapter {k + 1} of a {len(chs)}-chapter book: {why}",
                                    {"path": "read_epub:book", "chapters": chs, "chapter": k, "why": why})
        if bad:
            k, field, x, y = bad[0]
            first = next((kk for kk in kinds[:max(k, 0)] if kk), None) or hazard or "clean"
            # shrink to the two-chapter book (culprit j, victim k) that still fails
            for j in range(max(k, 0)):
                try:
                    two = book_failures(E, [chs[j], chs[k]])
                except Exception:  # noqa
                    two = []
                if any(b[0] == 1 for b in two):
                    first = kinds[j] or "clean"
                    b = next(b for b in two if b[0] == 1)
                    chs, k, field, x, y = [chs[j], chs[k]], 1, b[1], b[2], b[3]
                    break
            fails["read_epub:book"] = fails.get("read_epub:book", 0) + 1
            ctx.finding(f"epub:chapter-carryover:{first}",
                        f"read_epub: chapter {k + 1} of a {len(chs)}-chapter book depends on the chapters before it ({field}: "
                        f"{str(x)[:80]!r} in the book, {str(y)[:80]!r} alone); an earlier chapter ends with {first}",
                        {"path": "read_epub:book", "chapters": chs, "chapter": k, "field": field, "in_book": x, "alone": y})

    # ---- every chapter starts from the model's initial state (fresh handler or complete reset)
    pre = "From S2T Require Import Lib.PyStr C17.Model C17.Corr Gen.C17Tables.\n"
    distinct = []
    for o, raw, cd in log:
        if (o, raw, cd) not in distinct:
            distinct.append((o, raw, cd))
    tok_ok = all(raw == "" and cd is None for _, raw, cd in distinct)
    observable = [o for o, _, _ in distinct if not (len(o) == 2 and o[0] == "unobservable")]
    cases = [f"([], {epub_obs_coq(o)})" for o in observable]
    ok, failing, lg = (coq_eval_shards(ctx, "epubstart", pre, "(epub_case epub_remove epub_void epub_block ws_table)", cases,
                                        shard=500, ty="list event * epub_obs") if cases else (False, [], "no feed observed"))
    ctx.traces += len(log)
    ctx.obligation("correspondence:every EPUB chapter is parsed by a handler in the model's initial state (e_init), tokenizer input empty",
                   ok and not failing and tok_ok and len(observable) == len(distinct) and len(log) == fed and fed > 0,
                   (f"feeds observed {len(log)} of {fed} chapter documents; distinct start states {len(distinct)}; "
                    f"non-initial: {[distinct[i] for i in failing][:1]!r}; pending tokenizer input: "
                    f"{[(r, c) for _, r, c in distinct if r != '' or c is not None][:1]!r} " + lg)[:1500])

    # same for the HTML builder behind read_html and the MSG body converter
    hlog = []
    HRec = start_recording(H._HtmlTreeBuilder, lambda p: html_obs(p)[0], hlog)
    calls = 0
    with mock.patch.object(H, "_HtmlTreeBuilder", HRec), mock.patch.object(M, "_HtmlTreeBuilder", HRec):
        for doc in ("<p>a</p><noscript><p>open", "<p>b</p><script>var x;", "<p>c</p>"):
            list(H.read_html(io.BytesIO(doc.encode())))
            M._html_to_text(doc)
            calls += 2
    hd = []
    for o, raw, cd in hlog:
        if (o, raw, cd) not in hd:
            hd.append((o, raw, cd))
    cases = [f"([], {html_obs_coq(o)})" for o, _, _ in hd if not (len(o) == 2 and o[0] == "unobservable")]
    ok, failing, lg = (coq_eval_shards(ctx, "htmlstart", pre, "(html_case html_remove html_void)", cases, shard=500,
                                        ty="list event * html_obs") if cases else (False, [], "no feed observed"))
    ctx.obligation("correspondence:every HTML document is parsed by a builder in the model's initial state (h_init)",
                   ok and not failing and len(cases) == len(hd) and len(hlog) == calls and all(r == "" and c is None for _, r, c in hd),
                   (f"feeds observed {len(hlog)} of {calls}; distinct start states {len(hd)} " + lg)[:800])


# ----------------------------------------------------------------------------- feed-level correspondence
def recording(cls, registry=None):
    """Subclass that records the handler calls html.parser makes, then lets the real handler run."""
    class Rec(cls):
        def __init__(self):
            super().__init__()
            self.events = []
            if registry is not None:
                registry.append(self)

        def feed(self, data):
            self.fed = getattr(self, "fed", "") + data
            return super().feed(data)

        def handle_starttag(self, tag, attrs):
            self.events.append(("S", tag, tuple(attrs)))
            super().handle_starttag(tag, attrs)

        def handle_endtag(self, tag):
            self.events.append(("E", tag))
            super().handle_endtag(tag)

        def handle_data(self, data):
            self.events.append(("D", data))
            super().handle_data(data)

        def handle_comment(self, data):
            self.events.append(("C", data))
            super().handle_comment(data)
    return Rec


def feed_correspondence(ctx, H, E):
    """feed(document) on the real classes == model run on the event stream the tokenizer produced
    (ties handle_startendtag = Start;End and "no other callback touches the state")."""
    rng = ctx.rng
    docs = ['<p>a</p><noscript><img src=x></noscript><p>b</p>', '<p>a<embed src=x>b<embed/>c</p>', '<br/><p/>x<script/>y</script>z',
            '<!DOCTYPE html><?pi x?><p>a &amp; b &#65; <![CDATA[c]]> <!-- d --></p><title>t</title>',
            '<table><tr><td>a<noscript></td>x</noscript></td><th>b</th></tr></table><p>c</p>',
            '<P CLASS=x Class=y hidden>a</P><NoScript>h</NOSCRIPT>b<object><param name=a>h</object>c']
    for _ in range(ctx.n(120, 600)):
        d = Doc(rng)
        body = d.body(rng.randint(1, 4))
        docs.append(body if rng.random() < 0.5 else wrap_full(body))
    pre = "From S2T Require Import Lib.PyStr C17.Model C17.Corr Gen.C17Tables.\n"
    for name, cls, obs, obs_coq, fn, ty in (
            ("html", H._HtmlTreeBuilder, lambda p: html_obs(p)[0], html_obs_coq, "(html_case html_remove html_void)", "list event * html_obs"),
            ("epub", E._XhtmlTextExtractor, epub_obs, epub_obs_coq, "(epub_case epub_remove epub_void epub_block ws_table)", "list event * epub_obs")):
        Rec = recording(cls)
        cases, raised, stream_bad = [], [], []
        for doc in docs:
            try:
                p = Rec()
                p.feed(doc)
                if merged(p.events) != ref_stream(doc):
                    stream_bad.append(doc)
                cases.append(f"({evs_coq(p.events)}, {obs_coq(obs(p))})")
                ctx.case((name + "-feed", doc), "<" in doc, kind=f"{name}-feed")
            except Exception as ex:  # noqa
                raised.append((doc, repr(ex)))
        ok, failing, log = coq_eval_shards(ctx, name + "feed", pre, fn, cases, shard=250, ty=ty)
        ctx.traces += len(cases)
        ctx.disagreements += len(failing)
        ctx.obligation(f"protocol:{cls.__name__}.feed(document) delivers html.parser's default event stream (empty-element = Start;End, "
                       "raw-text elements, character references)", not stream_bad, f"{len(stream_bad)} documents, first {stream_bad[:1]!r}"[:600])
        ctx.obligation(f"correspondence:{cls.__name__}.feed(document) state == model on the tokenizer's event stream",
                       ok and not failing and not raised,
                       (f"{len(failing)} disagreements of {len(cases)}, first: {docs[failing[0]] if failing else ''!r}; raised {raised[:1]} " + log)[:1500])


def merged(evs):
    """event stream with adjacent Data events joined (chunking is not part of the protocol)"""
    out = []
    for e in evs:
        e = (e[0], e[1].lower(), tuple(e[2])) if e[0] == "S" else (e[0], e[1].lower()) if e[0] == "E" else tuple(e)
        if e[0] == "D" and out and out[-1][0] == "D":
            out[-1] = ("D", out[-1][1] + e[1])
        else:
            out.append(e)
    return out


def ref_stream(doc):
    """What html.parser's DEFAULT tokenizer delivers for feed(doc) (no close()): the oracle the model assumes."""
    from html.parser import HTMLParser
    Ref = recording(HTMLParser)
    p = Ref()
    p.feed(doc)
    return merged(p.events)


def protocol_correspondence(ctx, H, E):
    """At the real call sites (read_html, msg _html_to_text, read_epub chapter) the handler objects receive exactly
    the default html.parser event stream of feed(document): no flush at EOF, no re-tokenisation, no rewriting,
    default empty-element handling (Start;End)."""
    from unittest import mock
    import importlib
    M = importlib.import_module("sharepoint2text.parsing.extractors.mail.msg_email_extractor")
    rng = ctx.rng
    docs = ['<p>a</p><script src="x.js"/><p>b</p><br/><hr/><object data="a"/>c', "<p>a &amp; b R&D</p><!-- open", "<p>a</p>tail text R&D",
            "<p>a</p><![CDATA[ x", '<p>a</p><p class="x', "<p>a</p><script>var x;", "<p>A&T</p><noscript/>x<style/>y"]
    for _ in range(ctx.n(60, 400)):
        d = Doc(rng)
        body = d.body(rng.randint(1, 3))
        doc = body if rng.random() < 0.4 else wrap_full(body)
        if rng.random() < 0.5:
            tl = rng.choice(EOF_TAILS[rng.choice(sorted(EOF_TAILS))]) % d.hid()
            doc = (doc[:doc.rindex("</body>")] if "</body>" in doc else doc + "\n") + tl
        docs.append(doc)
    mh = importlib.import_module("sharepoint2text.parsing.extractors.mhtml_extractor")
    bad = []
    nsites = 0
    for doc in docs:
        sites = []

        def site(name, mod, cls, attr, call):
            reg = []
            with mock.patch.object(mod, attr, recording(cls, reg)):
                try:
                    call()
                except Exception as ex:  # noqa
                    reg.append(ex)
            sites.append((name, reg))
        site("read_html", H, H._HtmlTreeBuilder, "_HtmlTreeBuilder", lambda: list(H.read_html(io.BytesIO(doc.encode("utf-8")))))
        for cte in ("quoted-printable", "base64", "8bit"):
            site(f"read_mhtml:{cte}", H, H._HtmlTreeBuilder, "_HtmlTreeBuilder",
                 lambda: list(mh.read_mhtml(io.BytesIO(mhtml_bytes(doc, cte)))))
        site("msg:_html_to_text", M, H._HtmlTreeBuilder, "_HtmlTreeBuilder", lambda: M._html_to_text(doc))
        if M._looks_like_html(doc):
            site("read_msg:body", M, H._HtmlTreeBuilder, "_HtmlTreeBuilder", lambda: msg_body_plain(M, doc))
        site("read_epub:chapter", E, E._XhtmlTextExtractor, "_XhtmlTextExtractor", lambda: list(E.read_epub(io.BytesIO(epub_bytes(doc)))))
        for name, reg in sites:
            nsites += 1
            ctx.case(("protocol", name, doc), True, kind="protocol")
            if len(reg) != 1 or isinstance(reg[0], Exception):
                bad.append((name, doc, f"{len(reg)} handler objects constructed / {reg[-1:]!r}"))
                continue
            fed = getattr(reg[0], "fed", None)
            if fed is None or fed.rstrip() != doc.rstrip():
                bad.append((name, doc, f"the text fed to the parser is not the document: {fed!r:.200}"))
                continue
            want = ref_stream(fed)
            got = merged(reg[0].events)
            if got != want:
                i = next((k for k in range(min(len(got), len(want))) if got[k] != want[k]), min(len(got), len(want)))
                bad.append((name, doc, f"event {i}: delivered {got[i:i + 2]!r}, default feed() gives {want[i:i + 2]!r}"))
    ctx.traces += nsites
    ctx.obligation("protocol:real call sites (read_html, read_mhtml x3 encodings, msg _html_to_text, read_msg body, read_epub chapter) feed the "
                   "document text unchanged, once, to one handler and deliver exactly html.parser's default feed() event stream",
                   not bad, (f"{len(bad)} of {nsites}; first: {bad[0] if bad else ''!r}")[:1200])


# ----------------------------------------------------------------------------- replay
def replay(ctx, rp):
    """./check C17 --replay F : re-evaluate the recorded input's oracle on the current tree."""
    import importlib
    import logging
    logging.disable(logging.CRITICAL)
    from sharepoint2text.parsing.extractors import html_extractor as H
    from sharepoint2text.parsing.extractors import epub_extractor as E
    key = rp.get("key", "replay")
    if "events" in rp:
        tup = lambda evs: [tuple(tuple(tuple(a) for a in x) if isinstance(x, list) else x for x in e) for e in evs]
        cls, obs = ((H._HtmlTreeBuilder, lambda p: html_obs(p)[0]) if rp.get("machine") == "html" else (E._XhtmlTextExtractor, epub_obs))
        a, b = tup(rp["events"]), tup(rp["without"])
        ctx.case(("replay", a), True, kind="replay")
        if obs(drive(cls, a)) != obs(drive(cls, b)):
            ctx.finding(key, rp.get("what", "state differs"), {"machine": rp.get("machine"), "events": a, "without": b})
    elif "doc_b64" in rp:
        mh = importlib.import_module("sharepoint2text.parsing.extractors.mhtml_extractor")
        raw = base64.b64decode(rp["doc_b64"])
        ctx.case(("replay", raw), True, kind="replay")
        for path, why in charset_check(H, mh, E, raw, rp.get("visible", []), rp.get("hidden", []), rp.get("marker", "")):
            ctx.finding(key, f"{path}: {why}", {"path": path, "doc_b64": rp["doc_b64"], "visible": rp.get("visible"), "hidden": rp.get("hidden"),
                                               "marker": rp.get("marker"), "why": why})
    elif "chapters" in rp:
        ctx.case(("replay", tuple(rp["chapters"])), True, kind="replay")
        bad = book_failures(E, rp["chapters"])
        if bad:
            ctx.finding(key, rp.get("what", "chapter depends on earlier chapters"), {"path": "read_epub:book", "chapters": rp["chapters"],
                                                                                    "failures": [list(map(str, b)) for b in bad[:3]]})
    elif "body_plain" in rp:
        M = importlib.import_module("sharepoint2text.parsing.extractors.mail.msg_email_extractor")
        got = msg_body_plain(M, rp["html_body"])
        ctx.case(("replay", rp["html_body"]), True, kind="replay")
        if "hid1z" in got or "vis1z" not in got:
            ctx.finding(key, rp.get("what", "read_msg keeps removed markup"), {"path": "read_msg:body", "html_body": rp["html_body"], "body_plain": got})
    elif "html_body" in rp:
        mods = {"mhtml": importlib.import_module("sharepoint2text.parsing.extractors.mhtml_extractor"),
                "msg": importlib.import_module("sharepoint2text.parsing.extractors.mail.msg_email_extractor")}
        body = rp["html_body"]
        full = wrap_full(body)
        if rp.get("truncated"):
            full = full[:full.rindex("\n</body>")]
        res = run_paths(body, full, H, E, mods)
        ctx.case(("replay", body), True, kind="replay")
        for path, (text, extra, tables) in res.items():
            why = check_tokens(text, extra, rp.get("visible", []), rp.get("cells", []), rp.get("hidden", []), tables)
            if why:
                ctx.finding(key, f"{path}: {why} for {body[:200]!r}", {"path": path, "html_body": body, "why": why,
                            "visible": rp.get("visible", []), "cells": rp.get("cells", []), "hidden": rp.get("hidden", [])})
    else:
        run(ctx)


# ----------------------------------------------------------------------------- X-fact: who uses the builder
def table_inventory(ctx, H, E):
    """The tag tables the model is parametric in are the ones the code uses, everywhere it uses them (fail closed)."""
    import ast
    import importlib
    from common import REPO, COQ
    M = importlib.import_module("sharepoint2text.parsing.extractors.mail.msg_email_extractor")
    mh = importlib.import_module("sharepoint2text.parsing.extractors.mhtml_extractor")
    # one builder class / one read_html behind HTML, MHTML and MSG
    ctx.obligation("inventory:MSG body and MHTML use html_extractor's own builder, renderer and read_html (same objects)",
                   M._HtmlTreeBuilder is H._HtmlTreeBuilder and M._HtmlTextExtractor is H._HtmlTextExtractor and mh.read_html is H.read_html
                   and not hasattr(M, "REMOVE_TAGS") and not hasattr(mh, "REMOVE_TAGS"), "")
    # the generated Coq tables are today's live sets
    gen = (COQ / "Gen" / "C17Tables.v").read_text()

    def coq_set(name):
        m = re.search(r"Definition %s : list str := \[(.*?)\]\." % name, gen, re.S)
        return set(re.findall(r'\(s "([^"]*)"\)', m.group(1))) if m else None
    live = {"html_remove": set(H.REMOVE_TAGS), "html_void": set(H._VOID_TAGS), "epub_remove": set(E.REMOVE_TAGS),
            "epub_void": set(getattr(E, "_VOID_REMOVE_TAGS", ())), "epub_block": set(E.BLOCK_TAGS), "html_block": set(H.BLOCK_TAGS)}
    diff = {k: (sorted(v), sorted(coq_set(k) or [])) for k, v in live.items() if coq_set(k) != v}
    ctx.obligation("inventory:Gen/C17Tables.v tables == live REMOVE_TAGS/_VOID_TAGS/_VOID_REMOVE_TAGS/BLOCK_TAGS of both modules", not diff, str(diff)[:600])
    # where the tables are read: only the modelled handlers (+ the renderer's dead REMOVE_TAGS branch, see C17_html_tree_has_no_removable_node)
    allowed = {"html_extractor.py": {("REMOVE_TAGS", "<module>"), ("_VOID_TAGS", "<module>"), ("REMOVE_TAGS", "_HtmlTreeBuilder.handle_starttag"),
                                     ("_VOID_TAGS", "_HtmlTreeBuilder.handle_starttag"), ("REMOVE_TAGS", "_HtmlTextExtractor._process_node")},
               "epub_extractor.py": {("REMOVE_TAGS", "<module>"), ("_VOID_REMOVE_TAGS", "<module>"),
                                     ("REMOVE_TAGS", "_XhtmlTextExtractor.handle_starttag"), ("_VOID_REMOVE_TAGS", "_XhtmlTextExtractor.handle_starttag")},
               "mhtml_extractor.py": set(), "mail/msg_email_extractor.py": set()}
    base = REPO / "sharepoint2text" / "parsing" / "extractors"
    problems = []
    for rel, want in allowed.items():
        tree = ast.parse((base / rel).read_text(encoding="utf-8"))
        got = set()

        def visit(node, scope):
            for ch in ast.iter_child_nodes(node):
                if isinstance(ch, (ast.FunctionDef, ast.AsyncFunctionDef, ast.ClassDef)):
                    visit(ch, (scope + "." if scope != "<module>" else "") + ch.name)
                else:
                    if isinstance(ch, ast.Name) and ch.id in ("REMOVE_TAGS", "_VOID_TAGS", "_VOID_REMOVE_TAGS"):
                        got.add((ch.id, scope))
                    visit(ch, scope)
        visit(tree, "<module>")
        if got != want:
            problems.append(f"{rel}: unexpected {sorted(got - want)} missing {sorted(want - got)}")
    ctx.obligation("inventory:REMOVE_TAGS/_VOID_TAGS/_VOID_REMOVE_TAGS are read only by the modelled handlers (and _process_node)",
                   not problems, "; ".join(problems)[:800])


def reuse_facts(ctx):
    import ast
    from common import REPO
    base = REPO / "sharepoint2text" / "parsing" / "extractors"

    def calls(path, fn):
        tree = ast.parse(path.read_text(encoding="utf-8"))
        names = set()
        for f in ast.walk(tree):
            if isinstance(f, ast.FunctionDef) and f.name == fn:
                for c in ast.walk(f):
                    if isinstance(c, ast.Call):
                        names.add(c.func.id if isinstance(c.func, ast.Name) else getattr(c.func, "attr", ""))
        return names
    m = calls(base / "mhtml_extractor.py", "read_mhtml")
    g = calls(base / "mail" / "msg_email_extractor.py", "_html_to_text")
    ctx.obligation("reuse:read_mhtml calls read_html", "read_html" in m, str(sorted(m)))
    ctx.obligation("reuse:msg _html_to_text uses _HtmlTreeBuilder + _HtmlTextExtractor",
                   {"_HtmlTreeBuilder", "_HtmlTextExtractor"} <= g, str(sorted(g)))


def tokenizer_facts(ctx, H, E):
    """The tokenizer the model takes as its oracle is html.parser's DEFAULT tokenizer, fed with the
    document as it is: configuration and call sites are obligations (fail closed)."""
    import ast
    import inspect
    from html.parser import HTMLParser
    from common import REPO
    allowed_overrides = {"__init__", "handle_starttag", "handle_endtag", "handle_data", "handle_comment", "__doc__", "__module__",
                         "__qualname__", "__firstlineno__", "__static_attributes__", "__annotations__"}
    for cls in (H._HtmlTreeBuilder, E._XhtmlTextExtractor):
        n = cls.__name__
        ctx.obligation(f"tokenizer-config:{n}.CDATA_CONTENT_ELEMENTS is html.parser's default",
                       tuple(cls.CDATA_CONTENT_ELEMENTS) == tuple(HTMLParser.CDATA_CONTENT_ELEMENTS) == ("script", "style"),
                       repr(cls.CDATA_CONTENT_ELEMENTS))
        inst = cls()
        ctx.obligation(f"tokenizer-config:{n} convert_charrefs=True, fresh tokenizer state",
                       inst.convert_charrefs is True and inst.rawdata == "" and inst.cdata_elem is None,
                       repr((inst.convert_charrefs, inst.rawdata, inst.cdata_elem)))
        over = sorted(k for k in vars(cls) if hasattr(HTMLParser, k) and k not in allowed_overrides)
        ctx.obligation(f"tokenizer-config:{n} overrides no html.parser method besides the four modelled handlers", not over,
                       f"overridden: {over}")
        mro_ok = [c.__name__ for c in cls.__mro__[1:]][:1] == ["HTMLParser"]
        ctx.obligation(f"tokenizer-config:{n} derives directly from html.parser.HTMLParser", mro_ok, str(cls.__mro__))

    # no pre-pass over the markup before feed(): in every function that calls .feed(...) the argument is a plain name
    # whose only definitions are a parameter, X.decode(...) or ctx.read_text(...), and nothing rewrites text before the feed
    base = REPO / "sharepoint2text" / "parsing" / "extractors"
    REWRITE = {"sub", "subn", "replace", "translate", "split", "join", "format", "strip", "lstrip", "rstrip", "lower", "upper",
               "escape", "unescape", "normalize", "expandtabs", "removeprefix", "removesuffix"}
    sites = {("html_extractor.py", "read_html"), ("mail/msg_email_extractor.py", "_html_to_text"), ("epub_extractor.py", "_extract_chapter")}
    found = set()
    problems = []
    for rel in ("html_extractor.py", "mhtml_extractor.py", "epub_extractor.py", "mail/msg_email_extractor.py"):
        tree = ast.parse((base / rel).read_text(encoding="utf-8"))
        for fn in [f for f in ast.walk(tree) if isinstance(f, (ast.FunctionDef, ast.AsyncFunctionDef))]:
            feeds = [c for c in ast.walk(fn) if isinstance(c, ast.Call) and isinstance(c.func, ast.Attribute) and c.func.attr == "feed"]
            if not feeds:
                continue
            found.add((rel, fn.name))
            if (rel, fn.name) not in sites:
                problems.append(f"{rel}:{fn.name}: new feed() site")
            params = {a.arg for a in fn.args.args + fn.args.kwonlyargs}
            for c in feeds:
                if len(c.args) != 1 or not isinstance(c.args[0], ast.Name):
                    problems.append(f"{rel}:{fn.name}:{c.lineno}: feed() argument is not a plain name: {ast.unparse(c)}")
                    continue
                if isinstance(c.func.value, ast.Name):
                    recv = c.func.value.id
                    called = sorted({x.func.attr for x in ast.walk(fn) if isinstance(x, ast.Call) and isinstance(x.func, ast.Attribute)
                                     and isinstance(x.func.value, ast.Name) and x.func.value.id == recv})
                    extra_calls = [m for m in called if m not in ("feed", "get_tree", "get_text", "get_title", "get_tables")]
                    if extra_calls:
                        problems.append(f"{rel}:{fn.name}: parser protocol is not feed()+getters: also calls {extra_calls}")
                else:
                    problems.append(f"{rel}:{fn.name}:{c.lineno}: feed() receiver is not a plain name")
                var = c.args[0].id
                defs = [a for a in ast.walk(fn) if isinstance(a, ast.Assign) and any(isinstance(tg, ast.Name) and tg.id == var for tg in a.targets)]
                defs += [a for a in ast.walk(fn) if isinstance(a, (ast.AugAssign, ast.AnnAssign)) and isinstance(a.target, ast.Name) and a.target.id == var]
                if not defs and var not in params:
                    problems.append(f"{rel}:{fn.name}: feed({var}) with unknown origin")
                for a in defs:
                    v = getattr(a, "value", None)
                    okv = (isinstance(v, ast.Call) and isinstance(v.func, ast.Attribute) and v.func.attr in ("decode", "read_text"))
                    if not okv:
                        problems.append(f"{rel}:{fn.name}:{a.lineno}: {var} is rewritten before feed(): {ast.unparse(a)[:80]}")
                # backward slice of the fed text (receivers of method calls, operands of other expressions): nothing in it
                # may rewrite text; the choice of the encoding (an ARGUMENT of decode) is not part of the slice
                def primary_names(e):
                    if isinstance(e, ast.Call):
                        if isinstance(e.func, ast.Attribute):
                            return primary_names(e.func.value)
                        return [n for a in e.args for n in primary_names(a)]
                    if isinstance(e, ast.Name):
                        return [e.id]
                    return [n for ch in ast.iter_child_nodes(e) for n in primary_names(ch)]

                def rewriting_calls(e):
                    out = []
                    for call in ast.walk(e):
                        if isinstance(call, ast.Call):
                            f = call.func
                            nm = f.attr if isinstance(f, ast.Attribute) else getattr(f, "id", "")
                            if nm in REWRITE or (isinstance(f, ast.Attribute) and isinstance(f.value, ast.Name) and f.value.id == "re"):
                                out.append(call)
                    return out
                seen, todo = set(), [var]
                while todo:
                    v = todo.pop()
                    if v in seen:
                        continue
                    seen.add(v)
                    for a in ast.walk(fn):
                        tg = (a.targets if isinstance(a, ast.Assign) else [a.target] if isinstance(a, (ast.AugAssign, ast.AnnAssign)) else [])
                        if any(isinstance(x, ast.Name) and x.id == v for x in tg) and getattr(a, "value", None) is not None \
                                and a.lineno <= c.lineno:
                            for call in rewriting_calls(a.value):
                                problems.append(f"{rel}:{fn.name}:{call.lineno}: the fed text is rewritten before feed(): {ast.unparse(call)[:80]}")
                            todo += primary_names(a.value)
        # MHTML: the only rewriting of the extracted HTML bytes is base64 whitespace removal (allow-listed)
        if rel == "mhtml_extractor.py":
            for call in ast.walk(tree):
                if isinstance(call, ast.Call) and isinstance(call.func, ast.Attribute) and call.func.attr in ("sub", "subn", "replace", "translate"):
                    src = ast.unparse(call)
                    if not src.startswith("_RE_BASE64_WS.sub(b''"):
                        problems.append(f"{rel}:{call.lineno}: rewriting call in the MHTML path: {src[:80]}")
    missing = sites - found
    ctx.obligation("tokenizer-config:no rewriting pre-pass over the markup before feed() (read_html, read_mhtml, _html_to_text, "
                   "_extract_chapter; today's sites allow-listed)", not problems and not missing,
                   "; ".join(problems + [f"feed() site disappeared: {m}" for m in sorted(missing)]))


def run(ctx):
    import logging
    logging.disable(logging.CRITICAL)
    ctx.rule = ("event lists: exhaustive up to length 3 (quick) / 4 (thorough) over a 6-8 tag alphabet + random longer lists; "
                "documents from the property grammar (visible blocks interleaved with removable elements whose content ranges "
                "over text, void tags, self-closed forms, nested removable elements, unbalanced end tags, comments, CDATA), each "
                "through read_html, read_mhtml x3 encodings, read_epub, msg _html_to_text; non-trivial = contains a removable element")
    ctx.trusted += [
        "G-dump: tools/props/c17.py prints REMOVE_TAGS/_VOID_TAGS/BLOCK_TAGS of html_extractor and epub_extractor "
        "(and _VOID_REMOVE_TAGS, str.isspace table) as Coq literals",
        "oracle: html.parser tokenizer (document -> event list; CDATA mode of script/style, malformed-markup recovery) - "
        "exercised by the text-level runs only",
        "oracle: _HtmlTextExtractor (tree -> text/tables/headings/links) and _XhtmlTextExtractor.get_text are universally "
        "quantified in the theorems (any function of the builder state); whitespace normalisation of EPUB cells is a Section variable",
        "modelled by hand, tied by differential runs on the real handler objects: _HtmlTreeBuilder.handle_*, _XhtmlTextExtractor.handle_*",
        "_skip_tag is compared only while skip_depth > 0 (dead otherwise)",
        "modelled by hand (C17/Sniff.v), tied by a differential run: read_html's BOM test, the skip regex _RE_SNIFF_SKIP_BYTES (as a "
        "one-pass scanner), the byte regex _RE_CHARSET_ATTR_BYTES (leftmost match, greedy [^>]+ with backtracking, groups 0 and 1), "
        "window 8192, UTF-7 exclusion; bytes.decode / the codecs (ASCII-compatibility probe) are an oracle recorded per case",
        "outside the model, sampled only: rendering of the tree (_process_node whitespace/table formatting), EPUB get_text clean-up, "
        "MIME decoding of MHTML parts (email package), zip/OPF handling of EPUB, msg_parser (stubbed as an oracle)",
        "not asserted (belongs to C02): trailing visible text after the last tag is never delivered because no path calls close(); "
        "MHTML ignores the MIME part's charset parameter; a UTF-16 BOM stays in the text as U+FEFF",
    ]
    ctx.assumptions += ["events reach the handlers as html.parser delivers them (lower-cased tags, startend = Start;End)"]
    H, E = gen_tables(ctx)

    ctx.prove("C17/Props.v", ["C17/Proofs.vo"], expected=[
        "C17_html_noninterference", "C17_html_outputs_equal", "C17_html_void_removable", "C17_html_comment_inert",
        "C17_html_text_preserved", "C17_html_all_text_without_removable", "C17_html_text_monotone", "C17_html_tree_has_no_removable_node", "C17_html_no_depth_cap",
        "C17_epub_noninterference", "C17_epub_outputs_equal", "C17_epub_void_removable", "C17_epub_comment_inert"])
    ctx.prove("C17/Inst.v", ["Gen/C17Tables.vo", "C17/Corr.vo", "C17/Proofs.vo"], expected=[
        "C17_html_tables_wf", "C17_epub_tables_wf", "C17_statement_tags_removed",
        "C17_html_void_matches_standard", "C17_epub_void_matches_standard", "C17_hypotheses_satisfiable",
        "C17_remove_sets_agree"])

    ctx.prove("C17/SniffProps.v", ["C17/SniffProofs.vo"], expected=[
        "C17_sniff_comment_inert", "C17_sniff_unterminated_comment_inert", "C17_sniff_removed_element_inert",
        "C17_sniff_unterminated_element_inert",
        "C17_sniff_hypotheses_nonvacuous", "C17_sniff_utf7_never", "C17_sniff_bom_decides", "C17_sniff_beyond_window_inert",
        "C17_sniff_prefix_removed_markup_inert_refuted"])
    reuse_facts(ctx)
    table_inventory(ctx, H, E)
    tokenizer_facts(ctx, H, E)
    event_correspondence(ctx, H, E)
    feed_correspondence(ctx, H, E)
    protocol_correspondence(ctx, H, E)
    event_oracle(ctx, H, E)
    text_level(ctx, H, E)
    sniff_correspondence(ctx, H)
    charset_level(ctx, H, E)
    chapters_independent(ctx, H, E)
    environment_level(ctx, H, E)


META = {
    "technique": "Coq proof of non-interference for an event-level model of the skip logic (generic skip machine instantiated "
                 "for the HTML tree builder and the EPUB text machine, parametric in the tag tables) + kernel-decided table "
                 "premises for tables dumped from the live modules + vm_compute differential correspondence on the real "
                 "handler objects + text-level token oracle through read_html/read_mhtml/read_epub/msg body",
    "design_ref": "DESIGN.md §5 C17",
    "level_text": "Kernel-checked: for every tag table, every removable non-void tag r, every event list pre that ends visible, "
                  "every inner whose first unmatched </r> is the closing one and every post, the builder state after "
                  "pre++<r>inner</r>++post equals the state after pre++post (HTML tree builder and EPUB chapter machine); hence "
                  "every output is identical. Void removable (<embed>, <embed/>) and comments are inert at any position; nested "
                  "segments inside a removed element are inert. The tokenizer (text -> events) and the tree -> text renderer are "
                  "oracles; the composition is validated on generated documents only.",
    "level_note": "Trusted: Coq kernel+VM; G-dump printer; hand-written models of the handlers and of the encoding decision (tied by "
                  "exhaustive/random differential runs comparing the complete object state / the regex match and the decode call); "
                  "html.parser tokenizer, codecs and the renderers are oracles (tokenizer configuration, call protocol and table "
                  "inventory are fail-closed obligations). Cannot be modelled: third-party MIME/zip/msg_parser behaviour, codec tables. "
                  "Encoding decision: comments and the six removed elements (any letter case, any body whose first same-name end tag is "
                  "the closing one, also when left open to the end of the window) proved inert at full strength inside the window. "
                  "Still outside the model: the renderer (_process_node / _format_table_as_text / extract clean-up: regex whitespace, "
                  "str.strip/ljust) - universally quantified in the theorems, sampled by the text-level oracle.",
}
