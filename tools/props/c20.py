"""C20 — built-in AES (_pypdf_aes_fallback.py) == FIPS-197 in ECB/CBC, round trips, stream wrapper, rejections.

G: the nine tables of the live module are dumped into Gen/C20Tables.v on every run; C20/Inst.v re-decides
   `tables_ok T` (every entry equals the spec function) with the kernel.
Proofs: C20/Props.v (parametric in T under tables_ok), C20/Vectors.v (published vectors validate the spec).
D: the model (vm_compute) against the implementation on exhaustive byte-level cases and random
   (history, key, iv, message) cases through the real module functions and the patched pypdf CryptAES.
Oracle: an independent pure-Python FIPS-197 reference + published vectors + round trips, on the implementation.
"""
from __future__ import annotations

import importlib

from common import coq_bytes, coq_eval_shards

AES_MOD = "sharepoint2text.parsing.extractors.pdf._pypdf_aes_fallback"
TABLE_NAMES = ["_SBOX", "_INV_SBOX", "_MUL2", "_MUL3", "_MUL9", "_MUL11", "_MUL13", "_MUL14", "_RCON"]
FIELDS = ["SBOX", "INV_SBOX", "MUL2", "MUL3", "MUL9", "MUL11", "MUL13", "MUL14", "RCON"]


def gen_tables(ctx):
    m = importlib.import_module(AES_MOD)

    def lit(v):
        v = list(v)
        if not all(isinstance(x, int) and not isinstance(x, bool) and x >= 0 for x in v):
            raise ValueError("table entry is not a non-negative int")
        return "[" + ";".join(str(x) for x in v) + "]%N"
    txt = "(* GENERATED on every check run from the live module _pypdf_aes_fallback — do not edit. *)\n"
    txt += "From Coq Require Import NArith List.\nFrom S2T Require Import C20.Model.\nImport ListNotations.\n\n"
    txt += "Definition T : tables := {|\n"
    txt += ";\n".join(f"  {f} := {lit(getattr(m, n))}" for f, n in zip(FIELDS, TABLE_NAMES)) + "\n|}.\n"
    txt += f"Definition ROUND_KEY_CACHE_MAX : nat := {int(m._ROUND_KEY_CACHE_MAX)}.\n"
    ctx.gen_write("Gen/C20Tables.v", txt)
    return m


# ----------------------------------------------------------------------------- independent reference (FIPS-197)
class Ref:
    """Textbook AES on a 4x4 matrix state, no tables shared with the module under test."""

    @staticmethod
    def gmul(a, b):
        p = 0
        for _ in range(8):
            if b & 1:
                p ^= a
            hi = a & 0x80
            a = (a << 1) & 0xFF
            if hi:
                a ^= 0x1B
            b >>= 1
        return p

    def __init__(self):
        g = self.gmul
        inv = [0] * 256
        for a in range(1, 256):
            for b in range(1, 256):
                if g(a, b) == 1:
                    inv[a] = b
                    break
        rotl = lambda x, k: ((x << k) | (x >> (8 - k))) & 0xFF
        self.sbox = [inv[a] ^ rotl(inv[a], 1) ^ rotl(inv[a], 2) ^ rotl(inv[a], 3) ^ rotl(inv[a], 4) ^ 0x63
                     for a in range(256)]
        self.inv_sbox = [0] * 256
        for a, s in enumerate(self.sbox):
            self.inv_sbox[s] = a
        self.mt = {k: [g(k, x) for x in range(256)] for k in (2, 3, 9, 11, 13, 14)}   # the reference's own products
        self._exp = {}

    def expand(self, key):
        key = bytes(key)
        if key not in self._exp:
            if len(self._exp) > 64:
                self._exp.clear()
            self._exp[key] = self._expand(key)
        return self._exp[key]

    def _expand(self, key):
        nk = len(key) // 4
        nr = nk + 6
        w = [list(key[4 * i:4 * i + 4]) for i in range(nk)]
        rc = 1
        for i in range(nk, 4 * (nr + 1)):
            t = list(w[i - 1])
            if i % nk == 0:
                t = [self.sbox[t[1]] ^ rc, self.sbox[t[2]], self.sbox[t[3]], self.sbox[t[0]]]
                rc = self.gmul(rc, 2)
            elif nk > 6 and i % nk == 4:
                t = [self.sbox[x] for x in t]
            w.append([x ^ y for x, y in zip(w[i - nk], t)])
        return [sum(w[4 * r:4 * r + 4], []) for r in range(nr + 1)], nr

    def enc_block(self, key, blk):
        rk, nr = self.expand(key)
        g = lambda k, x: self.mt[k][x]
        s = [[blk[r + 4 * c] ^ rk[0][r + 4 * c] for c in range(4)] for r in range(4)]
        for rnd in range(1, nr + 1):
            s = [[self.sbox[s[r][c]] for c in range(4)] for r in range(4)]
            s = [[s[r][(c + r) % 4] for c in range(4)] for r in range(4)]
            if rnd != nr:
                s = [[g(2, s[r][c]) ^ g(3, s[(r + 1) % 4][c]) ^ s[(r + 2) % 4][c] ^ s[(r + 3) % 4][c]
                      for c in range(4)] for r in range(4)]
            s = [[s[r][c] ^ rk[rnd][r + 4 * c] for c in range(4)] for r in range(4)]
        return bytes(s[i % 4][i // 4] for i in range(16))

    def dec_block(self, key, blk):
        rk, nr = self.expand(key)
        g = lambda k, x: self.mt[k][x]
        s = [[blk[r + 4 * c] ^ rk[nr][r + 4 * c] for c in range(4)] for r in range(4)]
        for rnd in range(nr - 1, -1, -1):
            s = [[s[r][(c - r) % 4] for c in range(4)] for r in range(4)]
            s = [[self.inv_sbox[s[r][c]] for c in range(4)] for r in range(4)]
            s = [[s[r][c] ^ rk[rnd][r + 4 * c] for c in range(4)] for r in range(4)]
            if rnd != 0:
                s = [[g(14, s[r][c]) ^ g(11, s[(r + 1) % 4][c]) ^ g(13, s[(r + 2) % 4][c]) ^ g(9, s[(r + 3) % 4][c])
                      for c in range(4)] for r in range(4)]
        return bytes(s[i % 4][i // 4] for i in range(16))

    @staticmethod
    def unpad(data, bs):
        """PKCS#7 as specified: the last byte p (1..bs) and exactly the last p bytes, all equal to p, go."""
        if not data:
            return data
        p = data[-1]
        if p < 1 or p > bs or len(data) < p or any(x != p for x in data[-p:]):
            return None
        return data[:-p]

    def ecb(self, key, data, dec=False):
        f = self.dec_block if dec else self.enc_block
        return b"".join(f(key, data[i:i + 16]) for i in range(0, len(data), 16))

    def cbc_enc(self, key, iv, data):
        out, prev = [], iv
        for i in range(0, len(data), 16):
            prev = self.enc_block(key, bytes(a ^ b for a, b in zip(data[i:i + 16], prev)))
            out.append(prev)
        return b"".join(out)

    def cbc_dec(self, key, iv, data):
        out, prev = [], iv
        for i in range(0, len(data), 16):
            blk = data[i:i + 16]
            out.append(bytes(a ^ b for a, b in zip(self.dec_block(key, blk), prev)))
            prev = blk
        return b"".join(out)



# ----------------------------------------------------------------------------- patch_pypdf_fallback_aes: AST -> Coq
PATCH_MODS = {"pypdf._crypt_providers": "Providers", "pypdf._crypt_providers._fallback": "Fb", "pypdf._encryption": "Enc"}


def translate_patch(m):
    """Fail-closed translation of patch_pypdf_fallback_aes into (guard string, [(ns, attr, value)]).
    Accepted statements: docstring; `import <pypdf module> as <alias>`; the guard
    `if <providers>.crypt_provider[0] != "<str>": return False` (before any assignment); local function
    definitions; `<alias>.<name> = <rhs>` / `<fb>.CryptAES.<name> = <rhs>` with rhs a module-level function, a
    local function or `<fb>.CryptAES`; a final `return True`.  Anything else raises."""
    import ast
    from common import coq_str
    tree = ast.parse(open(m.__file__, encoding="utf-8").read())
    module_fns = {n.name for n in tree.body if isinstance(n, ast.FunctionDef)}
    fns = [n for n in tree.body if isinstance(n, ast.FunctionDef) and n.name == "patch_pypdf_fallback_aes"]
    if len(fns) != 1:
        raise ValueError("patch_pypdf_fallback_aes not found exactly once")
    fn = fns[0]
    if fn.args.args or fn.args.kwonlyargs or fn.args.vararg or fn.args.kwarg or fn.decorator_list:
        raise ValueError("unexpected signature/decorators")
    alias, local_fns, guard, body = {}, set(), None, []
    stmts = list(fn.body)
    if stmts and isinstance(stmts[0], ast.Expr) and isinstance(stmts[0].value, ast.Constant) and isinstance(stmts[0].value.value, str):
        stmts = stmts[1:]
    if not (stmts and isinstance(stmts[-1], ast.Return) and isinstance(stmts[-1].value, ast.Constant) and stmts[-1].value.value is True):
        raise ValueError("last statement is not `return True`")
    for st in stmts[:-1]:
        if isinstance(st, ast.Import):
            for a in st.names:
                if a.name not in PATCH_MODS or not a.asname:
                    raise ValueError(f"unexpected import {a.name}")
                alias[a.asname] = PATCH_MODS[a.name]
        elif isinstance(st, ast.If):
            tst = st.test
            ok = (guard is None and not body and not st.orelse and isinstance(tst, ast.Compare) and len(tst.ops) == 1
                  and isinstance(tst.ops[0], ast.NotEq) and isinstance(tst.left, ast.Subscript)
                  and isinstance(tst.left.value, ast.Attribute) and tst.left.value.attr == "crypt_provider"
                  and isinstance(tst.left.value.value, ast.Name) and alias.get(tst.left.value.value.id) == "Providers"
                  and isinstance(tst.left.slice, ast.Constant) and tst.left.slice.value == 0
                  and isinstance(tst.comparators[0], ast.Constant) and isinstance(tst.comparators[0].value, str)
                  and len(st.body) == 1 and isinstance(st.body[0], ast.Return)
                  and isinstance(st.body[0].value, ast.Constant) and st.body[0].value.value is False)
            if not ok:
                raise ValueError(f"unexpected `if` at line {st.lineno}")
            guard = tst.comparators[0].value
        elif isinstance(st, ast.FunctionDef):
            local_fns.add(st.name)
        elif isinstance(st, ast.Assign):
            if guard is None or len(st.targets) != 1 or not isinstance(st.targets[0], ast.Attribute):
                raise ValueError(f"unexpected assignment at line {st.lineno}")
            tg = st.targets[0]
            if isinstance(tg.value, ast.Name) and tg.value.id in alias:
                key = (alias[tg.value.id], tg.attr)
            elif (isinstance(tg.value, ast.Attribute) and tg.value.attr == "CryptAES" and isinstance(tg.value.value, ast.Name)
                  and alias.get(tg.value.value.id) == "Fb"):
                key = ("FbCryptAES", tg.attr)
            else:
                raise ValueError(f"unexpected assignment target at line {st.lineno}")
            v = st.value
            if isinstance(v, ast.Name) and v.id in local_fns:
                val = f"(Wrapper {coq_str(v.id)})"
            elif isinstance(v, ast.Name) and v.id in module_fns:
                val = f"(OursFn {coq_str(v.id)})"
            elif isinstance(v, ast.Attribute) and v.attr == "CryptAES" and isinstance(v.value, ast.Name) and alias.get(v.value.id) == "Fb":
                val = "FbClass"
            else:
                raise ValueError(f"unexpected right-hand side at line {st.lineno}")
            body.append((key, val))
        else:
            raise ValueError(f"unexpected statement {type(st).__name__} at line {st.lineno}")
    if guard is None:
        raise ValueError("no provider guard")
    return guard, body


def gen_patch(ctx, m):
    from common import coq_str
    try:
        guard, body = translate_patch(m)
        err = ""
    except Exception as e:  # noqa
        guard, body, err = "", [], f"{type(e).__name__}: {e}"
    ctx.obligation("ast:patch_pypdf_fallback_aes has the modelled shape (guard + attribute assignments only)", not err, err)
    txt = "(* GENERATED on every check run from the AST of patch_pypdf_fallback_aes — do not edit. *)\n"
    txt += "From S2T Require Import Lib.PyStr C20.Patch.\n\n"
    txt += f"Definition patch_guard : str := {coq_str(guard) if guard else '[]'}.\n"
    txt += "Definition patch_body : list assign := [\n" + ";\n".join(
        f"  (({ns}, {coq_str(a)}), {v})" for (ns, a), v in body) + "\n].\n"
    ctx.gen_write("Gen/C20Patch.v", txt)
    return guard, body, err


SNAP_SCRIPT = r"""
import importlib, json, sys
scenario = sys.argv[1]
m = importlib.import_module(%r)
import pypdf._crypt_providers as providers, pypdf._crypt_providers._fallback as fb, pypdf._encryption as enc
FN = ["aes_ecb_encrypt", "aes_ecb_decrypt", "aes_cbc_encrypt", "aes_cbc_decrypt"]
keep, ids = [], {}
def cls(o):
    for n in FN:
        if o is getattr(m, n):
            return ["OursFn", n]
    if o is fb.CryptAES:
        return ["FbClass"]
    qn = getattr(o, "__qualname__", "")
    if getattr(o, "__module__", None) == m.__name__ and qn.startswith("patch_pypdf_fallback_aes.<locals>."):
        return ["Wrapper", qn.rsplit(".", 1)[1]]
    keep.append(o)
    return ["Other", ids.setdefault(id(o), len(ids))]
def snap():
    out = []
    for nsname, d in (("Providers", vars(providers)), ("Fb", vars(fb)), ("Enc", vars(enc)), ("FbCryptAES", vars(fb.CryptAES))):
        for k, v in list(d.items()):
            if k.startswith("__") and k.endswith("__") and k != "__init__":
                continue
            out.append([nsname, k, cls(v)])
    return out
if scenario == "other-provider":
    providers.crypt_provider = ("some_other_provider", "1.0")
if scenario == "hostile-prestate":
    enc.aes_ecb_encrypt = lambda *a: b"stale"
    providers.aes_cbc_decrypt = enc.aes_cbc_encrypt
    fb.CryptAES.encrypt = lambda self, d: d
    providers.CryptAES = type("Stale", (), {})
    if hasattr(enc, "aes_cbc_decrypt"):
        del enc.aes_cbc_decrypt
runs = []
before = snap()
for _ in range(3):
    ret = m.patch_pypdf_fallback_aes()
    after = snap()
    runs.append({"before": before, "ret": bool(ret), "after": after})
    before = after
print(json.dumps({"provider": providers.crypt_provider[0], "runs": runs}))
"""


H = bytes.fromhex
KAT_PT = H("6bc1bee22e409f96e93d7e117393172aae2d8a571e03ac9c9eb76fac45af8e51"
           "30c81c46a35ce411e5fbc1191a0a52eff69f2445df4f9b17ad2b417be66c3710")
KAT_IV = H("000102030405060708090a0b0c0d0e0f")
KAT = {  # SP 800-38A F.1 / F.2 and FIPS-197 C.1-C.3
    16: (H("2b7e151628aed2a6abf7158809cf4f3c"),
         H("3ad77bb40d7a3660a89ecaf32466ef97f5d3d58503b9699de785895a96fdbaaf43b1cd7f598ece23881b00e3ed030688"
           "7b0c785e27e8ad3f8223207104725dd4"),
         H("7649abac8119b246cee98e9b12e9197d5086cb9b507219ee95db113a917678b273bed6b8e3c1743b7116e69e22229516"
           "3ff1caa1681fac09120eca307586e1a7"),
         H("69c4e0d86a7b0430d8cdb78070b4c55a")),
    24: (H("8e73b0f7da0e6452c810f32b809079e562f8ead2522c6b7b"),
         H("bd334f1d6e45f25ff712a214571fa5cc974104846d0ad3ad7734ecb3ecee4eefef7afd2270e2e60adce0ba2face6444e"
           "9a4b41ba738d6c72fb16691603c18e0e"),
         H("4f021db243bc633d7178183a9fa071e8b4d9ada9ad7dedf4e5e738763f69145a571b242012fb7ae07fa9baac3df102e0"
           "08b0e27988598881d920a9e64f5615cd"),
         H("dda97ca4864cdfe06eaf70a0ec0d7191")),
    32: (H("603deb1015ca71be2b73aef0857d77811f352c073b6108d72d9810a30914dff4"),
         H("f3eed1bdb5d2a03c064b5a7e3db181f8591ccb10d410ed26dc5ba74a31362870b6ed21b99ca6f4f9f153e7b1beafed1d"
           "23304b7a39f9f3ff067d8d8f9e24ecc7"),
         H("f58c4c04d6e5f1ba779eabfb5f7bfbd69cfc4e967edb808d679f777bc6702c7d39f23369a9d9bacfa530e26304231461"
           "b2eb05e2c39be9fcda6c19078c6a9d1b"),
         H("8ea2b7ca516745bfeafc49904b496089")),
}


# ----------------------------------------------------------------------------- Coq literals
def cb(b):
    return coq_bytes(bytes(b))


def copt(x):
    return "None" if x is None else f"(Some {cb(x)})"


def clb(l):
    return "[" + "; ".join(cb(x) for x in l) + "]"


def cbool(b):
    return "true" if b else "false"


class Run:
    def __init__(self, ctx, m):
        self.ctx, self.m = ctx, m
        self.cases, self.info = [], []
        self.ref = Ref()

    def call(self, what, f, *a):
        """Run the implementation; ValueError -> None; any other exception is a finding (not a case)."""
        try:
            return True, f(*a)
        except ValueError:
            return True, None
        except Exception as e:  # noqa
            self.ctx.finding(f"unexpected-exception:{what}:{type(e).__name__}",
                             f"{what} raised {type(e).__name__}: {e} (only ValueError is specified)",
                             {"call": what, "args": [x if not isinstance(x, list) else list(x) for x in a]})
            return False, None

    def add(self, term, info, nontrivial=True, kind=None):
        self.cases.append(term)
        self.info.append(info)
        self.ctx.case(info, nontrivial, kind or info[0])

    def set_history(self, hist):
        self.m._ROUND_KEY_CACHE.clear()
        for k in hist:
            try:
                self.m._get_round_keys(k)
            except ValueError:
                pass


def rkey(rng, n):
    return bytes(rng.randrange(256) for _ in range(n))


def run(ctx):
    import logging
    logging.disable(logging.CRITICAL)
    ctx.rule = ("exhaustive: _xtime on 0..255(+masking cases), _gf_mul on all byte pairs (quick: all pairs in Python, "
                "9x256+random pairs in Coq; thorough: all 65 536 in Coq), round functions on index-identifying, "
                "single-bit (basis) and random states; random (history, key, iv, message) with key sizes 16/24/32, "
                "message lengths 0..64 (aligned and not) and long messages of 1..257 blocks around every power of two (64/65, 128/129: batching thresholds) against the reference, 65/66/129/130 blocks also in Coq; messages ending in their own pad value / all pad bytes for every length 0..48, structured malformed paddings; keys differing in one byte, IV all 0xFF/0; wrong key/IV lengths, histories of up to 7 earlier keys "
                "(cache hits, evictions, bad keys); CryptAES wrapper for every message length 0..64 x key size; "
                "non-trivial = the call reaches the cipher (not rejected up front)")
    ctx.trusted += [
        "G-dump: tools/props/c20.py prints _SBOX/_INV_SBOX/_MUL2.._MUL14/_RCON/_ROUND_KEY_CACHE_MAX of the imported module",
        "spec C20/Spec.v written from FIPS-197 / SP 800-38A, validated by the published vectors (C20/Vectors.v, kernel)",
        "hand-written model C20/Model.v of _pypdf_aes_fallback.py, tied by the differential run (vm_compute)",
        "Python bytes / memoryview / bytearray slicing semantics as modelled by lists (firstn/skipn)",
        "the IV is a parameter of the model; the harness records it from the first 16 bytes of the wrapper's output; freshness is tested (distinct, no replay after random.seed / with frozen clocks), not proved",
    ]
    ctx.assumptions += ["list elements are bytes (< 256) — guaranteed by Python's bytes type",
                        "no interleaving of threads inside _get_round_keys is modelled (calls from a worker thread, sequentially, are tested by env_sweep)"]
    import time as _t
    _t0 = [_t.time()]
    phases = ctx.extra.setdefault("phase_s", {})

    def phase(name):
        phases[name] = round(_t.time() - _t0[0], 1)
        _t0[0] = _t.time()
    m = gen_tables(ctx)
    p_guard, p_body, p_err = gen_patch(ctx, m)
    rng = ctx.rng
    R = Run(ctx, m)
    ref = R.ref

    # ---- proofs
    ctx.prove("C20/Vectors.v", ["C20/Spec.vo"], expected=[
        "fips197_B_cipher", "fips197_C_128_cipher", "fips197_C_192_cipher", "fips197_C_256_cipher",
        "fips197_A_keyexp_128", "fips197_A_keyexp_192", "fips197_A_keyexp_256",
        "sp800_38a_F1_ecb_128_encrypt", "sp800_38a_F2_cbc_256_decrypt"])
    ctx.prove("C20/Props.v", ["C20/Top.vo", "C20/PatchProofs.vo"], expected=[
        "C20_sbox_tables_ok", "C20_mul_tables_ok", "C20_rcon_ok", "C20_gf_mul_ok", "C20_built_tables",
        "C20_expand_key_eq_spec", "C20_block_eq_fips", "C20_decrypt_encrypt", "C20_ecb_eq", "C20_cbc_eq",
        "C20_ecb_roundtrip", "C20_cbc_roundtrip", "C20_unpad_pad", "C20_pad_len", "C20_stream_roundtrip",
        "C20_rejects", "C20_round_key_cache_coherent",
        "C20_patch_installs", "C20_patch_frame", "C20_patch_idempotent", "C20_patch_not_applicable"])
    ok_inst, _ = ctx.prove("C20/Inst.v", ["Gen/C20Tables.vo", "C20/Corr.vo"], expected=["C20_tables_ok", "C20_cache_max"])
    ctx.prove("C20/InstPatch.v", ["Gen/C20Patch.vo", "C20/CorrPatch.vo"],
              expected=["C20_patch_body_ok", "C20_patch_guard_is_fallback_provider"])
    if not ok_inst:
        okh, out = ctx.coq_eval("firstbad", "From S2T Require Import C20.Spec C20.Model C20.Tables Gen.C20Tables.\n"
                                "Eval vm_compute in (first_bad T).\n")
        ctx.extra["first_bad_tables(index into SBOX,INV_SBOX,MUL2,3,9,11,13,14,RCON)"] = out[-300:]

    phase("coq-proofs")
    # ---- tables on the implementation, directly (property oracle for the G part: names the bad entry)
    want = {"_SBOX": ref.sbox, "_INV_SBOX": ref.inv_sbox,
            **{f"_MUL{k}": [ref.gmul(v, k) for v in range(256)] for k in (2, 3, 9, 11, 13, 14)}}
    rc, rcon = 1, [0]
    for _ in range(14):
        rcon.append(rc)
        rc = ref.gmul(rc, 2)
    want["_RCON"] = rcon
    for name, w in want.items():
        got = list(getattr(m, name))
        ctx.case(("table", name), True, "table")
        if got != w:
            bad = next((i for i in range(max(len(got), len(w))) if i >= len(got) or i >= len(w) or got[i] != w[i]), None)
            ctx.finding(f"table:{name}[{bad}]", f"{name}[{bad}] = {got[bad] if bad is not None and bad < len(got) else None}, "
                        f"FIPS-197 value is {w[bad] if bad is not None and bad < len(w) else None}",
                        {"table": name, "index": bad, "got": got, "want": w})

    # ---- byte-level functions
    for a in list(range(256)) + [256, 257, 0x180, 0x1FF, 1023, 2 ** 40 + 5]:
        ok, r = R.call("_xtime", m._xtime, a)
        if ok:
            R.add(f"CXtime {a} {r}", ("xtime", a, r))
            if r != ref.gmul(a & 0xFF, 2):
                ctx.finding(f"xtime:{a & 0xFF}", f"_xtime({a}) = {r}, field product is {ref.gmul(a & 0xFF, 2)}", {"a": a, "got": r})
    mults = [0, 1, 2, 3, 9, 11, 13, 14, 255]
    for a in range(256):
        for b in range(256):
            r = m._gf_mul(a, b)
            exp = ref.gmul(a, b)
            if r != exp:
                ctx.finding(f"gf_mul:{a}*{b}", f"_gf_mul({a},{b}) = {r}, field product is {exp}", {"a": a, "b": b, "got": r})
            if ctx.tier == "thorough" or b in mults:
                R.add(f"CGfMul {a} {b} {r}", ("gf_mul", a, b, r), kind="gf_mul")
            else:
                ctx.case(("gf_mul", a, b, r), True, "gf_mul(py)")
    for _ in range(ctx.n(1500, 0)):
        a, b = rng.randrange(256), rng.randrange(256)
        R.add(f"CGfMul {a} {b} {m._gf_mul(a, b)}", ("gf_mul", a, b), kind="gf_mul")
    for a, b in [(256 + 3, 7), (5, 512 + 9), (2 ** 33 + 87, 2 ** 20 + 131)]:
        R.add(f"CGfMul {a} {b} {m._gf_mul(a, b)}", ("gf_mul", a, b), kind="gf_mul")

    # ---- round functions on states
    states = [list(range(16)), list(range(16, 32)), list(range(240, 256)), [0] * 16, [255] * 16]
    for i in range(16):
        for bit in (0, 7) if ctx.tier == "quick" else range(8):
            s = [0] * 16
            s[i] = 1 << bit
            states.append(s)
    for col_bit in range(32):   # GF(2)-basis of the 32-bit column space, in a random column, other columns random
        s = [rng.randrange(256) for _ in range(16)]
        c = rng.randrange(4)
        s[4 * c:4 * c + 4] = [(1 << (col_bit % 8)) if j == col_bit // 8 else 0 for j in range(4)]
        states.append(s)
    states += [[rng.randrange(256) for _ in range(16)] for _ in range(ctx.n(60, 600))]
    fns = [m._sub_bytes, m._inv_sub_bytes, m._shift_rows, m._inv_shift_rows, m._mix_columns, m._inv_mix_columns]
    for s in states:
        for k, f in enumerate(fns):
            st = list(s)
            ok, _ = R.call(f.__name__, f, st)
            if ok:
                R.add(f"CState {k} {cb(s)} {cb(st)}", ("state", f.__name__, bytes(s), bytes(st)), kind=f.__name__)
        rk = [rng.randrange(256) for _ in range(16)]
        st = list(s)
        m._add_round_key(st, bytes(rk))
        R.add(f"CArk {cb(s)} {cb(rk)} {cb(st)}", ("ark", bytes(s), bytes(rk)), kind="_add_round_key")
        # inverses on the implementation
        for f, g in ((m._sub_bytes, m._inv_sub_bytes), (m._shift_rows, m._inv_shift_rows), (m._mix_columns, m._inv_mix_columns)):
            st = list(s)
            f(st)
            g(st)
            if st != s:
                ctx.finding(f"not-inverse:{g.__name__}", f"{g.__name__}({f.__name__}(s)) != s for s={s}", {"state": s, "got": st})

    # ---- key expansion, block functions
    keys = []
    for n in (16, 24, 32):
        keys += [bytes(n), bytes([255]) * n, bytes(range(n)), KAT[n][0]] + [rkey(rng, n) for _ in range(ctx.n(8, 80))]
    bad_keys = [rkey(rng, n) for n in (0, 1, 8, 15, 17, 20, 23, 25, 31, 33, 48, 64)]
    for k in keys + bad_keys:
        ok, r = R.call("_expand_key", m._expand_key, k)
        if not ok:
            continue
        R.add(f"CExpand {cb(k)} " + ("None" if r is None else f"(Some {clb(r)})"), ("expand", k), len(k) in (16, 24, 32), "expand_key")
        if len(k) in (16, 24, 32):
            exp, _ = ref.expand(k)
            if r is None or [bytes(x) for x in r] != [bytes(x) for x in exp]:
                ctx.finding(f"expand_key:len={len(k)}", f"_expand_key differs from FIPS-197 KeyExpansion for key {k.hex()}",
                            {"key": k, "got": r, "want": [bytes(x) for x in exp]})
        elif r is not None:
            ctx.finding(f"accepts-key-length:{len(k)}", f"_expand_key accepts a {len(k)}-byte key", {"key": k})
    for k in keys:
        rks = m._expand_key(k)
        for blk in [bytes(16), rkey(rng, 16)]:
            for dec, f, rf in ((False, m._aes_encrypt_block, ref.enc_block), (True, m._aes_decrypt_block, ref.dec_block)):
                ok, r = R.call(f.__name__, f, blk, rks)
                if not ok:
                    continue
                R.add(f"CBlock {cbool(dec)} {cb(k)} {cb(blk)} {copt(r)}", ("block", dec, k, blk), kind=f.__name__)
                if r != rf(k, blk):
                    ctx.finding(f"block-{'decrypt' if dec else 'encrypt'}:keylen={len(k)}",
                                f"{f.__name__} differs from FIPS-197 for key {k.hex()} block {blk.hex()}",
                                {"key": k, "block": blk, "got": r, "want": rf(k, blk)})
        for blk in (rkey(rng, 15), rkey(rng, 17), b""):
            ok, r = R.call("_aes_encrypt_block", m._aes_encrypt_block, blk, rks)
            if ok:
                R.add(f"CBlock false {cb(k)} {cb(blk)} {copt(r)}", ("block", False, k, blk), False, "block-badlen")
                if r is not None:
                    ctx.finding("block-accepts-bad-length", f"_aes_encrypt_block accepts a {len(blk)}-byte block", {"block": blk})

    # ---- published vectors on the implementation
    for n, (k, ecb, cbc, c1) in KAT.items():
        R.set_history([])
        checks = [("ecb-enc", m.aes_ecb_encrypt(k, KAT_PT), ecb), ("ecb-dec", m.aes_ecb_decrypt(k, ecb), KAT_PT),
                  ("cbc-enc", m.aes_cbc_encrypt(k, KAT_IV, KAT_PT), cbc), ("cbc-dec", m.aes_cbc_decrypt(k, KAT_IV, cbc), KAT_PT),
                  ("fips197-C", m.aes_ecb_encrypt(bytes(range(n)), H("00112233445566778899aabbccddeeff")), c1)]
        for nm, got, wantv in checks:
            ctx.case(("kat", n, nm), True, "known-answer")
            if got != wantv:
                ctx.finding(f"known-answer:{nm}:{n * 8}", f"published vector {nm} AES-{n * 8} not reproduced",
                            {"key": k, "got": got, "want": wantv})

    # ---- ECB / CBC through the public functions, with cache histories
    def history():
        pool = [rng.choice(keys) for _ in range(5)] + [rng.choice(bad_keys)]
        return [rng.choice(pool) for _ in range(rng.randrange(0, 8))]
    n_mode = ctx.n(220, 2500)
    for t in range(n_mode):
        k = rng.choice(keys) if rng.random() < 0.9 else rng.choice(bad_keys)
        hist = history()
        if rng.random() < 0.3:
            hist.append(k)
        ln = rng.choice([0, 16, 32, 48, 64]) if rng.random() < 0.85 else rng.randrange(1, 65)
        data = rkey(rng, ln)
        iv = rkey(rng, 16) if rng.random() < 0.9 else rkey(rng, rng.choice([0, 8, 15, 17, 32]))
        good = len(k) in (16, 24, 32) and ln % 16 == 0
        for dec in (False, True):
            R.set_history(hist)
            f = m.aes_ecb_decrypt if dec else m.aes_ecb_encrypt
            ok, r = R.call(f.__name__, f, k, data)
            if ok:
                R.add(f"CEcb {cbool(dec)} {clb(hist)} {cb(k)} {cb(data)} {copt(r)}", ("ecb", dec, hist, k, data), good, f.__name__)
                if good and r != ref.ecb(k, data, dec):
                    ctx.finding(f"{f.__name__}:keylen={len(k)}", f"{f.__name__} differs from the FIPS-197 reference "
                                f"(key {k.hex()}, {ln} bytes)", {"key": k, "data": data, "history": hist, "got": r})
                if not good and r is not None:
                    ctx.finding(f"{f.__name__}-accepts:key={len(k)},data%16={ln % 16}", f"{f.__name__} accepts key length "
                                f"{len(k)} / data length {ln}", {"key": k, "data": data})
            R.set_history(hist)
            f = m.aes_cbc_decrypt if dec else m.aes_cbc_encrypt
            ok, r = R.call(f.__name__, f, k, iv, data)
            if ok:
                g2 = good and len(iv) == 16
                R.add(f"CCbc {cbool(dec)} {clb(hist)} {cb(k)} {cb(iv)} {cb(data)} {copt(r)}", ("cbc", dec, hist, k, iv, data), g2, f.__name__)
                if g2 and r != (ref.cbc_dec if dec else ref.cbc_enc)(k, iv, data):
                    ctx.finding(f"{f.__name__}:keylen={len(k)}", f"{f.__name__} differs from the SP 800-38A reference "
                                f"(key {k.hex()}, iv {iv.hex()}, {ln} bytes)", {"key": k, "iv": iv, "data": data, "got": r})
                if not g2 and r is not None:
                    ctx.finding(f"{f.__name__}-accepts:key={len(k)},iv={len(iv)},data%16={ln % 16}",
                                f"{f.__name__} accepts key/iv/data lengths {len(k)}/{len(iv)}/{ln}", {"key": k, "iv": iv, "data": data})
        if good:
            R.set_history(hist)
            rt = m.aes_ecb_decrypt(k, m.aes_ecb_encrypt(k, data))
            rt2 = m.aes_cbc_decrypt(k, iv, m.aes_cbc_encrypt(k, iv, data)) if len(iv) == 16 else data
            if rt != data or rt2 != data:
                ctx.finding(f"roundtrip:keylen={len(k)}", "decrypt(encrypt(m)) != m", {"key": k, "iv": iv, "data": data})


    # ---- long messages (batching thresholds), structural boundaries: implementation vs independent reference for
    #      every block count; the Coq model on the counts around 64 and 128 (all of them in the thorough tier)
    long_cases, long_info = [], []
    counts = [1, 2, 3, 4, 7, 8, 9, 15, 16, 17, 31, 32, 33, 63, 64, 65, 66, 127, 128, 129, 130, 200, 255, 256, 257]
    coq_counts = set(counts) if ctx.tier == "thorough" else {65, 66, 129, 130}
    if ctx.tier == "thorough":
        counts += [511, 512, 513]
    for idx, nb in enumerate(counts):
        n = (16, 24, 32)[idx % 3]
        k = rkey(rng, n)
        iv = rkey(rng, 16)
        shape = idx % 4   # random / repeating block (ECB-CBC difference, chaining) / all 0xFF / counting
        data = (rkey(rng, 16 * nb) if shape == 0 else rkey(rng, 16) * nb if shape == 1
                else b"\xff" * (16 * nb) if shape == 2 else bytes((i * 7 + i // 251) & 0xFF for i in range(16 * nb)))
        exp = {"ecb-enc": ref.ecb(k, data), "cbc-enc": ref.cbc_enc(k, iv, data)}
        exp["ecb-dec"] = ref.ecb(k, data, True)
        exp["cbc-dec"] = ref.cbc_dec(k, iv, data)
        ct_cbc = exp["cbc-enc"]
        calls = [("ecb-enc", m.aes_ecb_encrypt, (k, data), exp["ecb-enc"]), ("ecb-dec", m.aes_ecb_decrypt, (k, data), exp["ecb-dec"]),
                 ("cbc-enc", m.aes_cbc_encrypt, (k, iv, data), exp["cbc-enc"]), ("cbc-dec", m.aes_cbc_decrypt, (k, iv, data), exp["cbc-dec"]),
                 ("cbc-dec-of-enc", m.aes_cbc_decrypt, (k, iv, ct_cbc), data), ("ecb-dec-of-enc", m.aes_ecb_decrypt, (k, exp["ecb-enc"]), data)]
        for nm, f, args, wantv in calls:
            R.set_history([])
            ok, r = R.call(f.__name__, f, *args)
            ctx.case(("long", nm, nb, n), True, f"long:{nm}")
            if not ok:
                continue
            if r != wantv:
                firstbad = next((i // 16 for i in range(0, len(wantv), 16) if r is None or r[i:i + 16] != wantv[i:i + 16]), None)
                ctx.finding(f"long-message:{nm}:first-wrong-block={firstbad}",
                            f"{f.__name__} on {nb} blocks differs from the reference from block {firstbad} on (key {k.hex()})",
                            {"fn": f.__name__, "key": k, "iv": iv, "blocks": nb, "data": args[-1], "got": r, "want": wantv,
                             "first_wrong_block": firstbad})
            if nb in coq_counts and nm in ("ecb-enc", "cbc-enc", "cbc-dec", "cbc-dec-of-enc", "ecb-dec"):
                dec = "dec" in nm.split("-")[1]
                if nm.startswith("ecb"):
                    long_cases.append(f"CEcb {cbool(dec)} [] {cb(k)} {cb(args[-1])} {copt(r)}")
                else:
                    long_cases.append(f"CCbc {cbool(dec)} [] {cb(k)} {cb(iv)} {cb(args[-1])} {copt(r)}")
                long_info.append(("long-" + nm, nb, k, iv))
    # IV / key / data extremes; keys that differ only in the last byte (cache must not confuse them)
    for n in (16, 24, 32):
        base = rkey(rng, n)
        twins = [base, base[:-1] + bytes([base[-1] ^ 1]), base[:-1] + bytes([base[-1] ^ 0x80]), bytes([base[0] ^ 1]) + base[1:]]
        for iv in (b"\xff" * 16, bytes(16), rkey(rng, 16)):
            for data in (b"\xff" * 32, bytes(48), rkey(rng, 16)):
                for k in twins:
                    hist = [x for x in twins if x != k] + [k] + [x for x in twins if x != k][:rng.randrange(0, 3)]
                    for dec, f, rf in ((False, m.aes_cbc_encrypt, ref.cbc_enc), (True, m.aes_cbc_decrypt, ref.cbc_dec)):
                        R.set_history(hist)
                        ok, r = R.call(f.__name__, f, k, iv, data)
                        if ok:
                            if ctx.tier == "thorough" or rng.random() < 0.25:
                                R.add(f"CCbc {cbool(dec)} {clb(hist)} {cb(k)} {cb(iv)} {cb(data)} {copt(r)}", ("cbc", dec, hist, k, iv, data), True, "cbc(twin-keys,iv-extremes)")
                            else:
                                ctx.case(("cbc-twin", dec, k, iv, data), True, "cbc(twin-keys,iv-extremes;py)")
                            if r != rf(k, iv, data):
                                ctx.finding(f"{f.__name__}:twin-keys:keylen={n}", f"{f.__name__} wrong after a history of keys differing in one "
                                            f"byte (key {k.hex()}, iv {iv.hex()})", {"key": k, "iv": iv, "data": data, "history": hist, "got": r})

    # ---- rejection grid: every combination of IV length x data length (lengths that compensate each other included),
    #      every key length; accepted exactly when key in {16,24,32}, len(iv) == 16 and 16 | len(data)
    gkey = {n: rkey(rng, n) for n in (0, 1, 15, 16, 17, 24, 31, 32, 33, 48)}
    iv_lens = [0, 1, 8, 15, 16, 17, 24, 31, 32, 48]
    data_lens = [0, 1, 8, 15, 16, 17, 24, 31, 32, 33, 40, 48]
    for kl, ivl, dl in [(kl, ivl, dl) for kl in gkey for ivl in iv_lens for dl in data_lens]:
        if kl not in (16, 24) and not (ivl in (16, 0, 32) and dl in (0, 16, 17, 32)):
            continue                                 # full IV x data grid for two good key sizes, a cross for the others
        k, iv, data = gkey[kl], rkey(rng, ivl), rkey(rng, dl)
        good = kl in (16, 24, 32) and ivl == 16 and dl % 16 == 0
        for dec, f, rf in ((False, m.aes_cbc_encrypt, ref.cbc_enc), (True, m.aes_cbc_decrypt, ref.cbc_dec)):
            R.set_history([])
            ok, r = R.call(f.__name__, f, k, iv, data)
            if not ok:
                continue
            R.add(f"CCbc {cbool(dec)} [] {cb(k)} {cb(iv)} {cb(data)} {copt(r)}", ("cbc", dec, [], k, iv, data), good, f"{f.__name__}(length-grid)")
            if (r is not None) != good or (good and r != rf(k, iv, data)):
                ctx.finding(f"{f.__name__}-length-grid:key={kl},iv={ivl},data={dl}",
                            f"{f.__name__} with key/iv/data lengths {kl}/{ivl}/{dl} " + (f"returned {len(r)} bytes instead of raising ValueError"
                            if r is not None and not good else "raised ValueError" if r is None else "differs from the reference"),
                            {"key": k, "iv": iv, "data": data, "got": r})
        if ivl == 16:
            good = kl in (16, 24, 32) and dl % 16 == 0
            for dec, f in ((False, m.aes_ecb_encrypt), (True, m.aes_ecb_decrypt)):
                R.set_history([])
                ok, r = R.call(f.__name__, f, k, data)
                if not ok:
                    continue
                R.add(f"CEcb {cbool(dec)} [] {cb(k)} {cb(data)} {copt(r)}", ("ecb", dec, [], k, data), good, f"{f.__name__}(length-grid)")
                if (r is not None) != good or (good and r != ref.ecb(k, data, dec)):
                    ctx.finding(f"{f.__name__}-length-grid:key={kl},data={dl}", f"{f.__name__} with key/data lengths {kl}/{dl} "
                                + ("accepted" if r is not None and not good else "rejected or wrong"), {"key": k, "data": data, "got": r})

    # ---- environment: the results must not depend on the thread, logging level, time zone or cwd
    import common
    env_cases = []
    for n in (16, 24, 32):
        for _ in range(6):
            k, iv = rkey(rng, n), rkey(rng, 16)
            data = rkey(rng, 16 * rng.randrange(0, 5))
            env_cases += [("ecb-enc", k, b"", data), ("ecb-dec", k, b"", data), ("cbc-enc", k, iv, data), ("cbc-dec", k, iv, data),
                          ("expand", k, b"", b""), ("round-keys", k, b"", b"")]
        env_cases += [("cbc-dec", rkey(rng, n), rkey(rng, 8), rkey(rng, 24)), ("cbc-enc", rkey(rng, n), rkey(rng, 16), rkey(rng, 17)),
                      ("ecb-enc", rkey(rng, n + 1), b"", rkey(rng, 16))]
        for ln in (0, 1, 15, 16, 17, 33):
            env_cases += [("wrapper-roundtrip", rkey(rng, n), b"", rkey(rng, ln))]
        env_cases += [("wrapper-dec", rkey(rng, n), b"", rkey(rng, ln)) for ln in (0, 16, 31, 48)]

    def env_fn(c):
        op, k, iv, data = c
        if op == "ecb-enc":
            return m.aes_ecb_encrypt(k, data)
        if op == "ecb-dec":
            return m.aes_ecb_decrypt(k, data)
        if op == "cbc-enc":
            return m.aes_cbc_encrypt(k, iv, data)
        if op == "cbc-dec":
            return m.aes_cbc_decrypt(k, iv, data)
        if op == "expand":
            return [bytes(x) for x in m._expand_key(k)]
        if op == "round-keys":
            return [bytes(x) for x in m._get_round_keys(k)]
        m.patch_pypdf_fallback_aes()
        import pypdf._crypt_providers._fallback as fb
        if op == "wrapper-dec":
            return fb.CryptAES(k).decrypt(data)
        ct = fb.CryptAES(k).encrypt(data)       # the IV differs per call: compare what must be stable
        pad = 16 - len(data) % 16
        return (len(ct), ct[16:] == ref.cbc_enc(k, ct[:16], data + bytes([pad]) * pad), fb.CryptAES(k).decrypt(ct))
    common.env_sweep(ctx, "aes-public-api", env_fn, env_cases,
                     describe=lambda c: f"{c[0]}(key {c[1].hex()}, iv {c[2].hex()}, {len(c[3])} bytes of data)")

    # ---- key families that coincide under a lossy canonicalisation of the key (leading / trailing zero bytes, equal
    #      integer value, common prefix or suffix, empty and all-zero keys of every length): each key is used while another
    #      member of its family is the most recently cached one.  Behavioural: result == reference under the key GIVEN,
    #      ValueError exactly for the wrong lengths.
    fam_seeds = [rkey(rng, 16), bytes(15) + b"\x01", b"\x01" + bytes(15), bytes(16), KAT[16][0]]
    families = []
    for K in fam_seeds:
        K8 = K[:8]
        families.append([K, bytes(8) + K, bytes(16) + K, K + bytes(8), K + bytes(16), K + K8, K + K, K8 + K, b"\x00" + K, K + b"\x00",
                         bytes(3) + K, K[1:], K[:-1], bytes(17) + K])
    families.append([b"", bytes(1), bytes(15), bytes(16), bytes(17), bytes(24), bytes(32), bytes(33)])
    fam_data, fam_iv = rkey(rng, 32), rkey(rng, 16)
    for fam in families:
        pairs = [(k1, k2) for k1 in fam for k2 in fam if k1 != k2]
        if ctx.tier == "quick" and len(pairs) > 60:
            pairs = [pq for pq in pairs if len(pq[0]) in (16, 24, 32)]      # something must actually be cached first
            rng.shuffle(pairs)
            pairs = pairs[:60]
        for k1, k2 in pairs:
            good = len(k2) in (16, 24, 32)
            for nm, f, args, wantv in (("aes_ecb_encrypt", m.aes_ecb_encrypt, (k2, fam_data), ref.ecb(k2, fam_data) if good else None),
                                       ("aes_cbc_decrypt", m.aes_cbc_decrypt, (k2, fam_iv, fam_data), ref.cbc_dec(k2, fam_iv, fam_data) if good else None)):
                R.set_history([k1])
                ok, r = R.call(nm, f, *args)
                if not ok:
                    continue
                if nm == "aes_ecb_encrypt":
                    R.add(f"CEcb false {clb([k1])} {cb(k2)} {cb(fam_data)} {copt(r)}", ("ecb", False, [k1], k2, fam_data), good, "ecb(key-family)")
                else:
                    R.add(f"CCbc true {clb([k1])} {cb(k2)} {cb(fam_iv)} {cb(fam_data)} {copt(r)}", ("cbc", True, [k1], k2, fam_iv, fam_data), good, "cbc(key-family)")
                if r != wantv:
                    same_as_k1 = len(k1) in (16, 24, 32) and r == (ref.ecb(k1, fam_data) if nm == "aes_ecb_encrypt" else ref.cbc_dec(k1, fam_iv, fam_data))
                    ctx.finding(f"key-confusion:{nm}:len(k1)={len(k1)},len(k2)={len(k2)}",
                                f"{nm} with key {k2.hex() or '(empty)'} right after a call with key {k1.hex() or '(empty)'} "
                                + ("returns the result under the EARLIER key" if same_as_k1 else "accepts a wrong-length key" if wantv is None else
                                   "raises ValueError for a valid key" if r is None else "differs from the reference"),
                                {"first_key": k1, "key": k2, "iv": fam_iv, "data": fam_data, "got": r, "want": wantv})

    # ---- cache histories.  The structural comparison (order of the cached keys) needs the cache to be keyed by the key
    #      bytes; with any other representation only the behavioural checks run (and the evidence says so).
    def cache_keys():
        try:
            ks = list(m._ROUND_KEY_CACHE.keys())
        except Exception:  # noqa
            return None
        if all(isinstance(k, (bytes, bytearray, memoryview)) for k in ks):
            return [bytes(k) for k in ks]
        return None
    structural = 0
    for t in range(ctx.n(40, 400)):
        hist = history() + history()
        R.set_history(hist)
        order = cache_keys()
        if order is not None:
            structural += 1
            R.add(f"CCache {clb(hist)} {clb(order)}", ("cache", hist, order), len(order) > 0, "cache")
            try:
                bad = len(order) > m._ROUND_KEY_CACHE_MAX or any(m._ROUND_KEY_CACHE[k] != m._expand_key(k) for k in order)
            except Exception as e:  # noqa
                bad = True
            if bad:
                ctx.finding("cache-incoherent", f"round-key cache incoherent or larger than {m._ROUND_KEY_CACHE_MAX} after history",
                            {"history": hist, "keys": order})
        else:
            ctx.case(("cache", hist), True, "cache(behavioural only)")
        for k in [rng.choice(keys)] + [h for h in hist if len(h) in (16, 24, 32)][:2]:
            ok1, got = R.call("_get_round_keys", m._get_round_keys, k)
            exp_rk, _ = ref.expand(k)
            if ok1 and (got is None or [bytes(x) for x in got] != [bytes(x) for x in exp_rk]):
                ctx.finding(f"cache-returns-wrong-keys:keylen={len(k)}", f"_get_round_keys({k.hex()}) is not the key expansion of that key after history "
                            f"{[h.hex() for h in hist]}", {"history": hist, "key": k})
    ctx.extra["cache_structural_comparisons"] = structural
    if not structural:
        ctx.extra["cache_note"] = "round-key cache not keyed by bytes: structural cache correspondence skipped, behavioural checks only"

    # ---- PKCS#7
    for ln in range(0, 65):
        d = rkey(rng, ln)
        for bs in (16,) if ctx.tier == "quick" and ln % 7 else (16, 1, 5, 8, 255):
            p = m._pkcs7_pad(d, bs)
            R.add(f"CPad {cb(d)} {bs} {cb(p)}", ("pad", d, bs), True, "pkcs7_pad")
            ok, u = R.call("_pkcs7_unpad", m._pkcs7_unpad, p, bs)
            if len(p) % bs or not (len(d) < len(p) <= len(d) + bs) or u != d:
                ctx.finding(f"pkcs7:bs={bs}", f"unpad(pad(m)) != m or bad padded length for len(m)={ln}, block size {bs}",
                            {"data": d, "block_size": bs, "padded": p, "unpadded": u})
            R.add(f"CUnpad {cb(p)} {bs} {copt(u)}", ("unpad", p, bs), True, "pkcs7_unpad")
    for _ in range(ctx.n(150, 1500)):
        ln = rng.randrange(0, 40)
        d = bytearray(rkey(rng, ln))
        if ln and rng.random() < 0.7:
            p = rng.randrange(0, 20)
            tail = bytes([p]) * min(p, ln)
            d[ln - len(tail):] = tail
            if rng.random() < 0.3 and ln > 1:
                d[rng.randrange(max(0, ln - p - 1), ln)] ^= rng.choice([1, 16, 255])
        d = bytes(d)
        ok, u = R.call("_pkcs7_unpad", m._pkcs7_unpad, d, 16)
        if ok:
            R.add(f"CUnpad {cb(d)} 16 {copt(u)}", ("unpad", d, 16), u is not None, "pkcs7_unpad(malformed)")


    # messages that END in the pad value for their own length (1-3 bytes, and entirely), for every length 0..48:
    # a stripper that removes "all trailing pad bytes" instead of exactly `padding` bytes truncates these
    def padlike_messages(ln, bs=16):
        pv = bs - ln % bs
        out = []
        for kk in (1, 2, 3):
            if kk <= ln:
                out.append(rkey(rng, ln - kk) + bytes([pv]) * kk)
        if ln:
            out.append(bytes([pv]) * ln)
            out.append(rkey(rng, ln - 1) + bytes([(pv % bs) + 1]))      # ends in a *different* small value
        return out
    for ln in range(0, 49):
        for d in padlike_messages(ln):
            p = m._pkcs7_pad(d, 16)
            ok, u = R.call("_pkcs7_unpad", m._pkcs7_unpad, p, 16)
            R.add(f"CPad {cb(d)} 16 {cb(p)}", ("pad", d, 16), True, "pkcs7_pad(padlike)")
            if ok:
                R.add(f"CUnpad {cb(p)} 16 {copt(u)}", ("unpad", p, 16), True, "pkcs7_unpad(padlike)")
                if u != d or p != d + bytes([16 - ln % 16]) * (16 - ln % 16):
                    ctx.finding(f"pkcs7-padlike-message:len%16={ln % 16}", f"unpad(pad(m)) != m for a message ending in its own pad value "
                                f"(len {ln}, m={d.hex()}): got {None if u is None else u.hex()}", {"message": d, "padded": p, "unpadded": u})
    # malformed paddings: last byte 0, > block size, run shorter than announced, run interrupted, longer run than announced
    malformed = []
    for ln in (1, 2, 15, 16, 17, 32, 33, 48):
        body = rkey(rng, ln)
        malformed += [body[:-1] + b"\x00", body[:-1] + b"\x11", body[:-1] + b"\x20", body[:-1] + b"\xff", body[:-1] + bytes([ln + 1 if ln < 16 else 16])]
        for pv in (2, 3, 5, 16):
            if ln >= pv:
                good = body[:ln - pv] + bytes([pv]) * pv
                malformed += [good, good[:ln - pv] + bytes([pv ^ 1]) + good[ln - pv + 1:],                  # first pad byte wrong
                              good[:ln - 2] + bytes([pv ^ 2]) + good[ln - 1:] if pv > 1 else good,        # interrupted run
                              (body[:ln - pv - 2] + bytes([pv]) * (pv + 2)) if ln >= pv + 2 else good]      # longer run: strip exactly pv
    for d in malformed:
        for bs in (16, 8):
            ok, u = R.call("_pkcs7_unpad", m._pkcs7_unpad, d, bs)
            if ok:
                R.add(f"CUnpad {cb(d)} {bs} {copt(u)}", ("unpad", d, bs), u is not None, "pkcs7_unpad(malformed-structured)")
                if u != ref.unpad(d, bs):
                    ctx.finding(f"pkcs7-unpad:bs={bs}:last-byte={d[-1]}", f"_pkcs7_unpad({d.hex()}, {bs}) = {None if u is None else u.hex()}, "
                                f"PKCS#7 says {None if ref.unpad(d, bs) is None else ref.unpad(d, bs).hex()} (None = ValueError)",
                                {"data": d, "block_size": bs, "got": u, "want": ref.unpad(d, bs)})

    # ---- CryptAES wrapper as patched into pypdf
    patched = False
    try:
        patched = m.patch_pypdf_fallback_aes()
        import pypdf._crypt_providers._fallback as fb
        CryptAES = fb.CryptAES
    except Exception as e:  # noqa
        ctx.extra["cryptaes_wrapper"] = f"not reachable: {e!r}"
    ctx.extra["pypdf_patched"] = bool(patched)
    if patched:
        # The IV is whatever the wrapper drew: it is RECORDED from the output (the property says the IV is the
        # 16-byte prefix), so the harness does not depend on which generator the module uses.
        all_ivs = []   # every IV the wrapper drew during this run (freshness is a property of the whole history)

        def wrapper_case(k, msg, kind, coq=True):
            ln = len(msg)
            R.set_history([])
            ok, ct = R.call("CryptAES.encrypt", CryptAES(k).encrypt, msg)
            if not ok:
                return None
            iv = ct[:16] if ct is not None else b""
            all_ivs.append(iv)
            padded = msg + bytes([16 - ln % 16]) * (16 - ln % 16)
            good_ct = ct is not None and len(ct) == 16 + len(padded) and ct[16:] == ref.cbc_enc(k, iv, padded)
            R.set_history([])
            ok2, back = R.call("CryptAES.decrypt", CryptAES(k).decrypt, ct) if ct is not None else (True, None)
            if coq:
                R.add(f"CStreamEnc {cb(k)} {cb(iv)} {cb(msg)} {copt(ct)}", ("stream-enc", k, iv, msg), True, f"CryptAES.encrypt{kind}")
                if ok2 and ct is not None:
                    R.add(f"CStreamDec {cb(k)} {cb(ct)} {copt(back)}", ("stream-dec", k, ct), True, f"CryptAES.decrypt{kind}")
            else:
                ctx.case(("stream-long", k, iv, ln), True, "CryptAES(long;py)")
            if not good_ct or back != msg:
                what = ("decrypt(encrypt(m)) returned a %d-byte message for a %d-byte m" % (len(back), ln)) if back is not None and good_ct \
                    else "encrypt != IV||CBC(pad m)" if not good_ct else "decrypt(encrypt(m)) raised ValueError"
                ctx.finding(f"stream{kind}:keylen={len(k)}:len%16={ln % 16}:blocks={ln // 16}", f"CryptAES wrapper: {what} (len(m)={ln}, m ends in {msg[-3:].hex()})",
                            {"key": k, "iv": iv, "message": msg, "ciphertext": ct, "decrypted": back})
            return ct

        for n in (16, 24, 32):
            for ln in range(0, 65):
                wrapper_case(rkey(rng, n), rkey(rng, ln), "")
        # messages ending in their own pad value / long messages through the wrapper
        wl = []
        for ln in range(0, 49):
            wl += [(rkey(rng, (16, 24, 32)[ln % 3]), d) for d in padlike_messages(ln)]
        for nb in (64, 65, 128, 129) if ctx.tier == "quick" else (63, 64, 65, 66, 127, 128, 129, 130, 200, 257):
            for tail in (0, 15):
                wl.append((rkey(rng, (16, 24, 32)[nb % 3]), rkey(rng, 16 * nb - tail)))
        wl += [(rkey(rng, 16), b"\x10" * 16), (rkey(rng, 32), b"\x10" * 32), (rkey(rng, 24), b"")]
        for k, msg in wl:
            wrapper_case(k, msg, "(padlike/long)", coq=len(msg) <= 16 * 66 or ctx.tier == "thorough")
        # valid CBC layer over a plaintext with malformed padding: ValueError exactly where PKCS#7 says
        for d in malformed:
            if len(d) % 16 == 0:
                k, iv = rkey(rng, 16), rkey(rng, 16)
                ct = iv + ref.cbc_enc(k, iv, d)
                R.set_history([])
                ok, back = R.call("CryptAES.decrypt", CryptAES(k).decrypt, ct)
                if ok:
                    R.add(f"CStreamDec {cb(k)} {cb(ct)} {copt(back)}", ("stream-dec", k, ct), back is not None, "CryptAES.decrypt(malformed-padding)")
                    if back != ref.unpad(d, 16):
                        ctx.finding(f"stream-unpad:last-byte={d[-1]}", f"CryptAES.decrypt of a plaintext {d.hex()} returned "
                                    f"{None if back is None else back.hex()}, PKCS#7 says {ref.unpad(d, 16)}", {"key": k, "ciphertext": ct, "plaintext": d, "got": back})
        for _ in range(ctx.n(120, 1200)):   # malformed / foreign ciphertexts
            k = rng.choice(keys)
            ln = rng.choice([0, 1, 15, 16, 17, 31, 32, 33, 48, 64]) if rng.random() < 0.7 else rng.randrange(0, 80)
            d = rkey(rng, ln)
            if ln >= 32 and ln % 16 == 0 and rng.random() < 0.6:   # a valid one with foreign padding amount
                msg = rkey(rng, ln - 16 - rng.randrange(1, 17))
                pad = ln - 16 - len(msg)
                d = d[:16] + ref.cbc_enc(k, d[:16], msg + bytes([pad]) * pad)
            R.set_history([])
            ok, back = R.call("CryptAES.decrypt", CryptAES(k).decrypt, d)
            if ok:
                R.add(f"CStreamDec {cb(k)} {cb(d)} {copt(back)}", ("stream-dec", k, d), back is not None, "CryptAES.decrypt(foreign)")

        # ---- "a fresh IV": not modelled (the IV is a parameter of the model), but observable: the IVs of a run of calls
        # are pairwise distinct, and the IV is not a function of process state a caller can set or observe
        # (the seedable global `random` generator, the clocks): after putting that state back, the IV must not replay.
        import random as _random
        import time as _time
        fk = keys[0]
        ivs = [CryptAES(fk).encrypt(b"x" * (i % 3))[:16] for i in range(64)]
        ctx.case(("iv-fresh", "distinct"), True, "iv-fresh")
        if len(set(ivs)) != len(ivs):
            ctx.finding("iv-reused", "CryptAES.encrypt used the same IV twice within 64 consecutive calls", {"ivs": ivs})
        # ... and over the whole history of the process: every IV drawn so far plus a long run (a pool or counter that
        # wraps around after N calls repeats an IV only then), with several keys and instances
        run_ivs = [CryptAES(keys[i % len(keys)]).encrypt(b"y" * (i % 5))[:16] for i in range(ctx.n(1500, 20000))]
        hist_ivs = [v for v in all_ivs if len(v) == 16] + ivs + run_ivs
        ctx.case(("iv-fresh", "distinct-over-history", len(hist_ivs)), True, "iv-fresh")
        if len(set(hist_ivs)) != len(hist_ivs):
            seen_at = {}
            first = next((seen_at[v], i) for i, v in enumerate(hist_ivs) if v in seen_at or seen_at.setdefault(v, i) is None)
            ctx.finding("iv-reused-over-history", f"CryptAES.encrypt: call #{first[1]} of this process drew the IV of call #{first[0]} "
                        f"({hist_ivs[first[1]].hex()}); {len(set(hist_ivs))} distinct IVs in {len(hist_ivs)} encryptions",
                        {"first_use": first[0], "reuse": first[1], "iv": hist_ivs[first[1]], "encryptions": len(hist_ivs)})
        saved_state = _random.getstate()
        try:
            for seed in (0, 1, 12345, "s2t"):
                seq = []
                for _rep in range(2):
                    _random.seed(seed)
                    seq.append([CryptAES(fk).encrypt(b"message %d" % i)[:16] for i in range(3)])
                ctx.case(("iv-fresh", "random.seed", seed), True, "iv-fresh")
                if any(x == y for x, y in zip(*seq)):
                    ctx.finding("iv-replays-after-random.seed", f"CryptAES.encrypt: after random.seed({seed!r}) the same IV sequence is drawn again "
                                f"({seq[0][0].hex()} twice) — the IV is a function of the global, seedable random generator, not fresh",
                                {"seed": seed, "ivs_first": seq[0], "ivs_again": seq[1], "environment": "random.seed(seed) before each run of 3 encryptions"})
        finally:
            _random.setstate(saved_state)
        clocks = {n_: getattr(_time, n_) for n_ in ("time", "time_ns", "monotonic", "monotonic_ns", "perf_counter", "perf_counter_ns")}
        try:
            for n_, f_ in clocks.items():
                setattr(_time, n_, (lambda v: (lambda: v))(1_700_000_000 * (10 ** 9 if n_.endswith("_ns") else 1)))
            frozen = [CryptAES(fk).encrypt(b"m")[:16] for _ in range(4)]
        finally:
            for n_, f_ in clocks.items():
                setattr(_time, n_, f_)
        ctx.case(("iv-fresh", "frozen-clock"), True, "iv-fresh")
        if len(set(frozen)) != len(frozen):
            ctx.finding("iv-replays-with-frozen-clock", "CryptAES.encrypt draws the same IV when the clocks do not advance", {"ivs": frozen})

    ctx.obligation("cryptaes-wrapper-exercised(pypdf on the fallback provider, patch applied)", bool(patched),
                   str(ctx.extra.get("cryptaes_wrapper", "patch_pypdf_fallback_aes() returned False")))
    m._ROUND_KEY_CACHE.clear()


    phase("implementation+oracles")
    # ---- patch_pypdf_fallback_aes: installation (model from the AST, snapshots from fresh interpreters)
    import json as _json
    import os as _os
    import subprocess as _sp
    import sys as _sys
    from common import coq_str

    def cval(v):
        return {"OursFn": lambda: f"(OursFn {coq_str(v[1])})", "Wrapper": lambda: f"(Wrapper {coq_str(v[1])})",
                "FbClass": lambda: "FbClass", "Other": lambda: f"(Other {v[1]}%N)"}[v[0]]()

    def cstate(sn):
        return "[" + "; ".join(f"(({n}, {coq_str(k)}), {cval(v)})" for n, k, v in sn) + "]"
    patch_cases, patch_info = [], []
    req = {(n, f): ["OursFn", f] for n in ("Fb", "Providers", "Enc") for f in ("aes_ecb_encrypt", "aes_ecb_decrypt", "aes_cbc_encrypt", "aes_cbc_decrypt")}
    req.update({("Providers", "CryptAES"): ["FbClass"], ("Enc", "CryptAES"): ["FbClass"],
                ("FbCryptAES", "__init__"): ["Wrapper", "_cryptaes_init"], ("FbCryptAES", "encrypt"): ["Wrapper", "_cryptaes_encrypt"],
                ("FbCryptAES", "decrypt"): ["Wrapper", "_cryptaes_decrypt"]})
    for scenario in ("plain", "other-provider", "hostile-prestate"):
        pr = _sp.run([_sys.executable, "-c", SNAP_SCRIPT % AES_MOD, scenario], capture_output=True, text=True, timeout=120, env=dict(_os.environ))
        if pr.returncode != 0:
            ctx.finding(f"patch-raises:{scenario}", f"patch_pypdf_fallback_aes() raised in scenario {scenario}: {pr.stderr.strip().splitlines()[-1:]}",
                        {"scenario": scenario, "stderr": pr.stderr[-2000:]})
            continue
        res = _json.loads(pr.stdout.strip().splitlines()[-1])
        prov = res["provider"]
        for i, rn in enumerate(res["runs"]):
            b = {(n, k): v for n, k, v in rn["before"]}
            a = {(n, k): v for n, k, v in rn["after"]}
            ctx.case(("patch", scenario, i), True, f"patch:{scenario}")
            patch_cases.append(f"({coq_str(prov)}, {cstate(rn['before'])}, {cbool(rn['ret'])}, {cstate(rn['after'])})")
            patch_info.append((scenario, i, prov))
            applies = prov == "local_crypt_fallback"
            # property oracle on the implementation's own snapshots
            if rn["ret"] != applies:
                ctx.finding(f"patch-return:{scenario}", f"patch_pypdf_fallback_aes() returned {rn['ret']} on provider {prov!r}", {"scenario": scenario, "run": i})
            if applies:
                for kq, want in req.items():
                    if a.get(kq) != want:
                        ctx.finding(f"patch-not-installed:{kq[0]}.{kq[1]}", f"after patch_pypdf_fallback_aes() [{scenario}, call {i + 1}] "
                                    f"{kq[0]}.{kq[1]} is {a.get(kq)}, expected {want}", {"scenario": scenario, "run": i, "key": kq, "got": a.get(kq)})
            for kq in set(a) | set(b):
                if (not applies or kq not in req) and a.get(kq) != b.get(kq):
                    ctx.finding(f"patch-touches:{kq[0]}.{kq[1]}", f"patch_pypdf_fallback_aes() [{scenario}, provider {prov}] changed {kq[0]}.{kq[1]} "
                                f"from {b.get(kq)} to {a.get(kq)}", {"scenario": scenario, "run": i, "key": kq})
            if i > 0 and (a != b or rn["ret"] != res["runs"][0]["ret"]):
                ctx.finding(f"patch-not-idempotent:{scenario}", f"call {i + 1} of patch_pypdf_fallback_aes() changed bindings again", {"scenario": scenario, "run": i})
    ctx.prove("C20/LinkC08.v", ["C08/Pad.vo", "C20/Model.vo"], expected=["C20_pkcs7_is_C08_pkcs7"])
    if not p_err:
        prep = "From S2T Require Import Lib.PyStr C20.Patch C20.CorrPatch Gen.C20Patch.\n"
        okp, failing_p, logp = coq_eval_shards(ctx, "corrpatch", prep, "(patch_case patch_guard patch_body)", patch_cases, shard=3,
                                               ty="str * state * bool * state", timeout=600)
        ctx.traces += len(patch_cases)
        ctx.obligation("correspondence(patch installation): model of the AST == real call on namespace snapshots (plain, other provider, "
                       "hostile pre-state; 3 consecutive calls each)", okp and not failing_p and len(patch_cases) >= 9,
                       (f"{len(failing_p)} disagreements; first: {patch_info[failing_p[0]] if failing_p else ''!r} " + logp)[:1200])
        for i in failing_p[:3]:
            ctx.finding(f"patch-model-disagrees:{patch_info[i][0]}:call{patch_info[i][1] + 1}", "the bindings after the real patch_pypdf_fallback_aes() differ from the "
                        "model translated from its AST", {"scenario": patch_info[i], "coq_term": patch_cases[i][:6000]})

    phase("patch-installation")
    # ---- correspondence: the model on the same cases
    pre = "From Coq Require Import NArith List.\nFrom S2T Require Import C20.Spec C20.Model C20.Corr Gen.C20Tables.\nImport ListNotations.\n"
    okc, failing, log = coq_eval_shards(ctx, "corr", pre, "(corr_case T)", R.cases, shard=ctx.n(350, 500), ty="ccase", timeout=1200)
    phase("coq-correspondence")
    okl, failing_l, logl = coq_eval_shards(ctx, "corrlong", pre, "(corr_case T)", long_cases, shard=3, ty="ccase", timeout=1200)
    ctx.obligation("correspondence(long messages: 65/66/129/130 blocks; thorough: 1..513):model==implementation",
                   okl and not failing_l, (f"{len(failing_l)} disagreements; first: {long_info[failing_l[0]][:2] if failing_l else ''!r} " + logl)[:1500])
    phase("coq-correspondence-long")
    for i in failing_l[:3]:
        ctx.finding(f"model-disagrees:{long_info[i][0]}:blocks={long_info[i][1]}", f"implementation differs from the proved model on a "
                    f"{long_info[i][1]}-block {long_info[i][0]} case", {"case": list(long_info[i]), "coq_term": long_cases[i][:6000]})
    for inf in long_info:
        ctx.case(inf, True, "coq:" + inf[0])
    ctx.traces += len(R.cases) + len(long_cases)
    ctx.disagreements += len(failing) + len(failing_l)
    ctx.extra["corr_long_cases"] = len(long_cases)
    ctx.extra["corr_cases"] = len(R.cases)
    ctx.obligation("correspondence:model==implementation (byte-level exhaustive + random histories/keys/ivs/messages)",
                   okc and not failing, (f"{len(failing)} disagreements; first: {R.info[failing[0]] if failing else ''!r} " + log)[:1500])
    for i in failing[:5]:
        inf = R.info[i]
        ctx.finding(f"model-disagrees:{inf[0]}", f"implementation output differs from the proved model on a {inf[0]} case "
                    f"(so from FIPS-197, the model being proved equal to the spec)", {"case": list(inf), "coq_term": R.cases[i][:4000]})


META = {
    "technique": "Coq proof (model of the table-driven AES == independent FIPS-197 spec, for every key/IV/message/history) "
                 "+ kernel-decided equality of the nine live tables with the spec functions + published vectors decided "
                 "by the kernel + vm_compute differential correspondence",
    "design_ref": "DESIGN.md §5 C20",
    "level_text": "Kernel-checked: spec (GF(2^8) by polynomial reduction, S-box = affine(inverse), matrix MixColumns, "
                  "KeyExpansion, Cipher/InvCipher, ECB/CBC) reproduces FIPS-197 App. A/B/C and SP 800-38A F.1/F.2; for every "
                  "key of 16/24/32 bytes, IV, aligned message and call history the model's _expand_key, block functions, "
                  "aes_ecb_*/aes_cbc_* equal the spec; InvCipher.Cipher = id (MixColumns inverse lifted to all columns by "
                  "XOR-linearity); ECB/CBC and CryptAES round trips; unpad(pad m) = m; ValueError on wrong lengths; cache "
                  "coherent and <= 4 entries. Tables re-decided on every run; model tied to the code by differential runs.",
    "level_note": "Trusted: Coq kernel+VM; the table printer; the hand-written model (validated differentially, incl. the "
                  "patched pypdf CryptAES with a recorded IV); IV freshness (secrets) and thread interleavings of the "
                  "module-level cache are not modelled.",
}
