"""C20 — built-in AES == FIPS-197 (see run())."""
from __future__ import annotations

from common import coq_bytes

AES_MOD = "sharepoint2text.parsing.extractors.pdf._pypdf_aes_fallback"


def gen_tables(ctx):
    import importlib
    m = importlib.import_module(AES_MOD)
    names = ["_SBOX", "_INV_SBOX", "_MUL2", "_MUL3", "_MUL9", "_MUL11", "_MUL13", "_MUL14", "_RCON"]
    fields = ["SBOX", "INV_SBOX", "MUL2", "MUL3", "MUL9", "MUL11", "MUL13", "MUL14", "RCON"]

    def lit(v):
        v = list(v)
        if not all(isinstance(x, int) and not isinstance(x, bool) and x >= 0 for x in v):
            raise ValueError("table entry is not a non-negative int")
        return "[" + ";".join(str(x) for x in v) + "]%N"
    txt = "(* GENERATED on every check run from the live module _pypdf_aes_fallback — do not edit. *)\n"
    txt += "From Coq Require Import NArith List.\nFrom S2T Require Import C20.Model.\nImport ListNotations.\n\n"
    txt += "Definition T : tables := {|\n"
    txt += ";\n".join(f"  {f} := {lit(getattr(m, n))}" for f, n in zip(fields, names)) + "\n|}.\n"
    txt += f"Definition ROUND_KEY_CACHE_MAX : nat := {int(m._ROUND_KEY_CACHE_MAX)}.\n"
    ctx.gen_write("Gen/C20Tables.v", txt)
    return m
