"""Small independent 7z writer for the C09 harness (copy coder only, plain header).

Layout follows 7-Zip's 7zFormat.txt: SignatureHeader, packed streams, Header{MainStreamsInfo{PackInfo,
UnpackInfo, SubStreamsInfo(with CRCs, as 7-Zip writes them)}, FilesInfo{EmptyStream, Names, Attributes}}.
Nothing of the implementation under test is used.

`files`   : list of dicts {name: str, data: bytes|None, attr: int|None}; data None = entry without a data
            stream (the EmptyStream bit is set unless `lie_stream` is given)
`layout`  : "solid" (one folder holding all streams) | "per-file" (one folder per stream)
            a file dict may carry "empty_file": True (with data None): the entry is flagged EmptyStream AND listed
            in the EmptyFile vector (0x0F) — the way every 7-Zip stores a zero-byte file
`lie_stream` : indices of files that have NO data but are NOT flagged EmptyStream (a listed file without a
            data stream: more stream-carrying files than folder streams)
"""
from __future__ import annotations

import struct
import zlib


def num(n: int) -> bytes:
    """7z variable-length number."""
    if n < 0x80:
        return bytes([n])
    # choose the smallest k (extra bytes) with n < 2^(8k + 7 - k)
    for k in range(1, 8):
        if n < (1 << (8 * k + 7 - k)):
            first = (0xFF << (8 - k)) & 0xFF | (n >> (8 * k))
            return bytes([first]) + (n & ((1 << (8 * k)) - 1)).to_bytes(k, "little")
    return b"\xff" + n.to_bytes(8, "little")


def bitvec(bits) -> bytes:
    out, cur, mask = bytearray(), 0, 0x80
    for b in bits:
        if b:
            cur |= mask
        mask >>= 1
        if mask == 0:
            out.append(cur)
            cur, mask = 0, 0x80
    if mask != 0x80:
        out.append(cur)
    return bytes(out)


PROP_IDS = {"empty_stream": 0x0E, "empty_file": 0x0F, "anti": 0x10, "ctime": 0x12, "atime": 0x13, "mtime": 0x14,
            "startpos": 0x18, "dummy": 0x19}


def encode_props(n_files, props) -> bytes:
    """FilesInfo property records from a semantic list, in the given order:
    ("empty_stream"|"empty_file"|"anti", bits) ("dummy", k) ("ctime"|"atime"|"mtime"|"startpos", None)
    ("names", [str], external_byte) ("attrs", defined_bits, [uint32 of the defined ones]) ("raw", id, bytes)"""
    out = bytearray()
    for pr in props:
        kind = pr[0]
        if kind in ("empty_stream", "empty_file", "anti"):
            body = bitvec(pr[1])
            pid = PROP_IDS[kind]
        elif kind == "dummy":
            body, pid = bytes(pr[1]), 0x19
        elif kind in ("ctime", "atime", "mtime", "startpos"):
            body, pid = bytes([0x01, 0x00]) + bytes(8 * n_files), PROP_IDS[kind]
        elif kind == "names":
            body = bytes([pr[2]]) + b"".join(x.encode("utf-16-le", "surrogatepass") + b"\x00\x00" for x in pr[1])
            pid = 0x11
        elif kind == "attrs":
            defined, vals = pr[1], pr[2]
            body = (bytes([0x01]) if all(defined) else bytes([0x00]) + bitvec(defined))
            body += b"".join(struct.pack("<I", v) for v in vals)
            pid = 0x15
        else:
            pid, body = pr[1], bytes(pr[2])
        out += bytes([pid]) + num(len(body)) + body
    return bytes(out)


def write_7z(files, layout="solid", lie_stream=(), substreams=True, attr_external_byte=False,
             props=None, n_files=None, streams=None) -> bytes:
    """props/n_files/streams given: `files` is ignored, the FilesInfo section is encode_props(n_files, props) and
    the packed data are `streams` (one folder when solid)."""
    lie = set(lie_stream)
    if props is None:
        streams = [f["data"] for i, f in enumerate(files) if f.get("data") is not None]
        empty = [(f.get("data") is None) and (i not in lie) for i, f in enumerate(files)]
    if layout == "solid":
        folders = [streams] if streams else []
    else:
        folders = [[d] for d in streams]
    packed = b"".join(b"".join(fo) for fo in folders)

    h = bytearray([0x01])                      # Header
    if folders:
        h += bytes([0x04])                     # MainStreamsInfo
        h += bytes([0x06]) + num(0) + num(len(folders))          # PackInfo
        h += bytes([0x09]) + b"".join(num(sum(map(len, fo))) for fo in folders) + bytes([0x00])
        h += bytes([0x07, 0x0B]) + num(len(folders)) + bytes([0x00])   # UnpackInfo / Folder / not external
        for _ in folders:
            h += num(1) + bytes([0x01, 0x00])  # 1 coder: id size 1, id 0x00 (copy)
        h += bytes([0x0C]) + b"".join(num(sum(map(len, fo))) for fo in folders)
        h += bytes([0x00])
        if substreams:
            h += bytes([0x08])                 # SubStreamsInfo
            h += bytes([0x0D]) + b"".join(num(len(fo)) for fo in folders)
            sizes = b"".join(b"".join(num(len(d)) for d in fo[:-1]) for fo in folders)
            h += bytes([0x09]) + sizes
            h += bytes([0x0A, 0x01]) + b"".join(struct.pack("<I", zlib.crc32(d) & 0xFFFFFFFF)
                                                for fo in folders for d in fo)
            h += bytes([0x00])
        h += bytes([0x00])
    if props is not None:
        h += bytes([0x05]) + num(n_files) + encode_props(n_files, props) + bytes([0x00, 0x00])
        header = bytes(h)
        start = struct.pack("<QQI", len(packed), len(header), zlib.crc32(header) & 0xFFFFFFFF)
        return (b"7z\xbc\xaf\x27\x1c" + bytes([0, 4]) + struct.pack("<I", zlib.crc32(start) & 0xFFFFFFFF)
                + start + packed + header)
    h += bytes([0x05]) + num(len(files))       # FilesInfo
    if any(empty):
        v = bitvec(empty)
        h += bytes([0x0E]) + num(len(v)) + v
        ef = [bool(f.get("empty_file")) for f, e in zip(files, empty) if e]
        if any(ef):                            # EmptyFile: one bit per EmptyStream entry
            v2 = bitvec(ef)
            h += bytes([0x0F]) + num(len(v2)) + v2
    names = bytes([0x00]) + b"".join(f["name"].encode("utf-16-le", "surrogatepass") + b"\x00\x00" for f in files)
    h += bytes([0x11]) + num(len(names)) + names
    if any(f.get("attr") is not None for f in files):
        body = bytes([0x01]) + (bytes([0x00]) if attr_external_byte else b"")
        body += b"".join(struct.pack("<I", f.get("attr") or 0) for f in files)
        h += bytes([0x15]) + num(len(body)) + body
    h += bytes([0x00, 0x00])                   # end FilesInfo, end Header
    header = bytes(h)
    start = struct.pack("<QQI", len(packed), len(header), zlib.crc32(header) & 0xFFFFFFFF)
    return (b"7z\xbc\xaf\x27\x1c" + bytes([0, 4]) + struct.pack("<I", zlib.crc32(start) & 0xFFFFFFFF)
            + start + packed + header)
